package vsched

import (
	"crypto/sha256"
	"encoding/json"
	"fmt"
	"os"
	"runtime"
	"sort"
	"strings"
	"testing"
	"testing/synctest"
	"time"

	"github.com/libp2p/go-libp2p/x/verif/vrep"
)

// Exec is one execution of a scenario under the scheduler.
type Exec struct {
	S       *Sched
	T       *testing.T
	Outcome string // canonical observation log of this execution (set by the body)
	VioKey  string
	VioDesc string
	Panic   string
	Data    any // scenario-private
}

// Fail records a violation for this execution (first one wins).
func (x *Exec) Fail(key, f string, a ...any) {
	if x.VioKey == "" {
		x.VioKey = key
		x.VioDesc = fmt.Sprintf(f, a...)
	}
}

// Scenario is a closed system: Body runs on the root goroutine of a fresh bubble with an active scheduler
// x.S. It builds the real objects, starts harness threads with x.S.Go, calls x.S.Run(), evaluates the
// oracle (x.Fail), tears the objects down (in a thread + x.S.Drain()) and sets x.Outcome.
type Scenario struct {
	Name string
	Body func(x *Exec)
	Opt  Options // Choices is filled in by the explorer
	// LeakIsViolation: goroutines still blocked when the bubble ends are reported as key "goroutine-leak"
	// (otherwise they are only counted).
	LeakIsViolation bool
	LeakKey         string
}

// Config of one exploration.
type Config struct {
	MaxBound  int // deviations (preemptions + select-preference deviations + explicit ticks)
	Deadline  time.Time
	MaxExecs  int64
	ShardI    int
	ShardN    int
	Property  string
	StopOnVio bool
}

type queued struct {
	choices []uint8
	sigHash [8]byte // hash of the (Kind, N, Sig) of the points up to and including the branching point in the parent
	from    int
	// expand: an execution of the previous level whose deviation-costing children belong to this level. It is
	// re-executed (not counted, not judged) to regenerate them: keeping every child of a level in memory costs
	// gigabytes once executions have thousands of points, keeping the parents costs one short prefix each.
	expand bool
}

// Summary of one exploration.
type Summary struct {
	Execs          int64
	Steps          int64
	BoundCompleted int // highest deviation bound fully explored (-1: not even 0)
	Outcomes       map[string]int64
	Diverged       int64
	Reexec         int64 // executions repeated only to regenerate the children of a lower level (not counted in Execs)
	Horizon        int64
	Leaks          int64
	PerLevel       []int64
	MaxPoints      int
	Capped         string
}

func sigHash(tr []PointRec, upto int) (h [8]byte) {
	hh := sha256.New()
	for i := 0; i < upto && i < len(tr); i++ {
		k := tr[i].Kind
		if k == KTick {
			k = KThread // a tick is one of the alternatives of a thread point: same offer, different choice
		}
		fmt.Fprintf(hh, "%d/%d/%d/%d;", k, tr[i].N, tr[i].NT, tr[i].Sig)
	}
	copy(h[:], hh.Sum(nil)[:8])
	return
}

func altCost(p PointRec, alt int) int {
	if alt == 0 {
		return 0
	}
	if p.Kind == KSelect {
		return 1
	}
	if alt >= p.NT && p.NT > 0 {
		return 1 // tick
	}
	return p.Cost
}

// RunOnce executes the scenario once with the given choice prefix.
func RunOnce(t *testing.T, sc *Scenario, choices []int, trace bool) (x *Exec) {
	x = &Exec{T: t}
	func() {
		defer func() {
			if r := recover(); r != nil {
				msg := fmt.Sprint(r)
				if strings.Contains(msg, "blocked goroutines remain") || strings.Contains(msg, "deadlock") {
					x.Panic = "LEAK: " + msg
				} else {
					buf := make([]byte, 8192)
					buf = buf[:runtime.Stack(buf, false)]
					x.Panic = "PANIC: " + msg + "\n" + string(buf)
				}
			}
		}()
		synctest.Test(t, func(t *testing.T) {
			opt := sc.Opt
			opt.Choices = choices
			opt.TraceOn = trace
			s := New(opt)
			x.S = s
			defer s.Stop()
			sc.Body(x)
			if trace && os.Getenv("VERIF_DUMP_GOROUTINES") != "" {
				// debugging aid for harness authors: what is still alive when the body returns
				synctest.Wait()
				buf := make([]byte, 1<<20)
				buf = buf[:runtime.Stack(buf, true)]
				for _, g := range strings.Split(string(buf), "\n\n") {
					if strings.Contains(g, "synctest") {
						fmt.Fprintf(os.Stdout, "GOROUTINE-AT-END %s\n\n", g)
					}
				}
			}
		})
	}()
	if S != nil {
		// the body panicked before Stop ran inside the bubble
		S = nil
	}
	return x
}

// Explore runs the scenario under every schedule within the deviation bound (iteratively 0, 1, ..),
// reporting into r. Returns the summary.
func Explore(t *testing.T, sc *Scenario, cfg Config, r *vrep.Result) *Summary {
	sum := &Summary{Outcomes: map[string]int64{}, BoundCompleted: -1}
	if cfg.ShardN <= 0 {
		cfg.ShardN = 1
	}
	levels := [][]queued{{{choices: nil, from: 0}}}
	firstOutcome := ""
	nViol := 0
	// gen enumerates the children of execution e (trace tr, explored at parentLevel) whose alternative costs
	// wantCost deviations, in a fixed order; the root's children are dealt out to the worker processes by their
	// index in that order (the same in every pass, whatever cost is asked for)
	gen := func(e queued, tr []PointRec, parentLevel, wantCost int, emit func(queued)) {
		isRoot := len(e.choices) == 0
		childIdx := 0
		for i := len(tr) - 1; i >= e.from; i-- {
			p := tr[i]
			for alt := p.N - 1; alt >= 1; alt-- {
				c := altCost(p, alt)
				if parentLevel+c > cfg.MaxBound {
					continue
				}
				if isRoot {
					childIdx++
					if childIdx%cfg.ShardN != cfg.ShardI {
						continue
					}
				}
				if c != wantCost {
					continue
				}
				nc := make([]uint8, i+1)
				for j := 0; j < i; j++ {
					nc[j] = uint8(tr[j].Chosen)
				}
				nc[i] = uint8(alt)
				emit(queued{choices: nc, sigHash: sigHashBranch(tr, i, alt), from: i + 1})
			}
		}
	}
	for level := 0; level <= cfg.MaxBound; level++ {
		if level >= len(levels) || len(levels[level]) == 0 {
			sum.BoundCompleted = cfg.MaxBound // nothing left to deviate on: every higher bound is covered too
			break
		}
		var next []queued
		var levelExecs int64
		stack := []queued{}
		q := levels[level]
		for qi := 0; qi < len(q); qi++ {
			stack = append(stack[:0], q[qi])
			for len(stack) > 0 {
				if (!cfg.Deadline.IsZero() && time.Now().After(cfg.Deadline)) || (cfg.MaxExecs > 0 && sum.Execs >= cfg.MaxExecs) {
					sum.Capped = fmt.Sprintf("stopped inside deviation bound %d after %d executions (deadline/execution cap)", level, sum.Execs)
					goto done
				}
				if (sum.Execs+sum.Reexec)%512 == 511 {
					if over, why := vrep.MemoryExceeded(); over {
						sum.Capped = fmt.Sprintf("stopped inside deviation bound %d after %d executions (%s)", level, sum.Execs, why)
						goto done
					}
				}
				e := stack[len(stack)-1]
				stack = stack[:len(stack)-1]
				ch := make([]int, len(e.choices))
				for i, c := range e.choices {
					ch[i] = int(c)
				}
				var x *Exec
				ok := false
				for attempt := 0; attempt < 6; attempt++ {
					x = RunOnce(t, sc, ch, false)
					if x.S != nil && x.S.Diverged == "" && (len(ch) == 0 || sigHash(x.S.Trace, len(ch)) == e.sigHash) {
						ok = true
						break
					}
				}
				if e.expand {
					// an execution of the previous level: only its deviation-costing children are wanted
					if !ok {
						sum.Diverged++
						continue
					}
					sum.Reexec++
					gen(e, x.S.Trace, level-1, 1, func(c queued) { stack = append(stack, c) })
					continue
				}
				countable := len(e.choices) > 0 || cfg.ShardI == 0
				if countable {
					sum.Execs++
					levelExecs++
				}
				if !ok {
					sum.Diverged++
					if sum.Diverged <= 2 {
						why := "signature of the replayed prefix differs"
						if x.S != nil && x.S.Diverged != "" {
							why = x.S.Diverged
						}
						r.Note("%s: replay divergence at choices %v: %s", sc.Name, ch, why)
					}
					continue
				}
				tr := x.S.Trace
				sum.Steps += int64(x.S.Steps)
				if len(tr) > sum.MaxPoints {
					sum.MaxPoints = len(tr)
				}
				if x.S.Horizon {
					sum.Horizon++
				}
				// verdict
				key, desc := x.VioKey, x.VioDesc
				if key == "" && x.S.InvErr != nil {
					key, desc = "invariant", x.S.InvErr.Error()
					if v, ok := x.S.InvErr.(interface{ VKey() string }); ok {
						key = v.VKey()
					}
				}
				if key == "" && x.S.ThreadPanic != "" {
					key, desc = "panic", x.S.ThreadPanic
				}
				if key == "" && strings.HasPrefix(x.Panic, "PANIC") {
					key, desc = "panic", x.Panic
				}
				if strings.HasPrefix(x.Panic, "LEAK") {
					sum.Leaks++
					if key == "" && sc.LeakIsViolation {
						key, desc = "goroutine-leak", x.Panic
						if sc.LeakKey != "" {
							key = sc.LeakKey
						}
					}
				}
				if countable {
					oc := x.Outcome
					if key != "" {
						oc = "VIOLATION:" + key
					}
					sum.Outcomes[oc]++
					if firstOutcome == "" {
						firstOutcome = oc
					}
					if len(r.Samples) < 3 || (oc != firstOutcome && len(r.Samples) < 6 && sum.Outcomes[oc] == 1) {
						r.Sample(map[string]any{"scenario": sc.Name, "choices": ch, "points": len(tr), "outcome": oc})
					}
				}
				if key != "" && countable {
					// a violation must reproduce identically before it is believed
					same := 0
					for i := 0; i < 2; i++ {
						y := RunOnce(t, sc, ch, false)
						yk := y.VioKey
						if yk == "" && y.S != nil && y.S.InvErr != nil {
							yk = "invariant"
							if v, ok := y.S.InvErr.(interface{ VKey() string }); ok {
								yk = v.VKey()
							}
						}
						if yk == "" && ((y.S != nil && y.S.ThreadPanic != "") || strings.HasPrefix(y.Panic, "PANIC")) {
							yk = "panic"
						}
						if yk == "" && strings.HasPrefix(y.Panic, "LEAK") && sc.LeakIsViolation {
							yk = "goroutine-leak"
							if sc.LeakKey != "" {
								yk = sc.LeakKey
							}
						}
						if yk == key {
							same++
						}
					}
					if same == 2 {
						nViol++
						var tracelog []string
						if nViol <= 3 {
							z := RunOnce(t, sc, ch, true)
							if z.S != nil {
								tracelog = annotate(z.S.Log)
								if len(tracelog) > 400 {
									tracelog = tracelog[len(tracelog)-400:]
								}
							}
						}
						r.Violate(key, desc, map[string]any{"scenario": sc.Name, "choices": ch, "threads": x.S.Threads(), "trace": tracelog})
						if cfg.StopOnVio {
							sum.Capped = "stopped at first violation"
							goto done
						}
					} else {
						sum.Diverged++
						r.Note("%s: a failing execution did not reproduce on replay (choices %v, key %s) - treated as unowned nondeterminism, not reported", sc.Name, ch, key)
					}
				}
				// children (the children of the root execution are distributed over the worker processes; every
				// other execution is explored by the worker that owns its ancestor): free alternatives are explored
				// at this level, deviation-costing ones at the next, regenerated from this execution then
				gen(e, tr, level, 0, func(c queued) { stack = append(stack, c) })
				more := false
				gen(e, tr, level, 1, func(queued) { more = true })
				if more {
					next = append(next, queued{choices: e.choices, sigHash: e.sigHash, from: e.from, expand: true})
				}
			}
		}
		sum.PerLevel = append(sum.PerLevel, levelExecs)
		sum.BoundCompleted = level
		levels = append(levels, next)
	}
done:
	if sum.Capped != "" {
		r.Cap("%s: %s; highest bound completed: %d", sc.Name, sum.Capped, sum.BoundCompleted)
	}
	if sum.Diverged > 0 {
		r.Cap("%s: %d executions diverged on replay (unowned nondeterminism) and their subtrees were skipped", sc.Name, sum.Diverged)
	}
	if sum.Horizon > 0 {
		r.Cap("%s: %d executions hit the step budget (no verdict for those)", sc.Name, sum.Horizon)
	}
	r.Executions += sum.Execs
	r.Transitions += sum.Steps
	r.States += int64(len(sum.Outcomes))
	var ocs []string
	for k, v := range sum.Outcomes {
		ocs = append(ocs, fmt.Sprintf("%s x%d", k, v))
		if k != firstOutcome {
			r.Distinct++
		}
	}
	sort.Strings(ocs)
	if len(ocs) > 12 {
		ocs = append(ocs[:12], fmt.Sprintf("... %d more", len(ocs)-12))
	}
	r.Outcome(fmt.Sprintf("%s: execs=%d perLevel=%v boundCompleted=%d maxPoints=%d outcomes=%d leaks=%d", sc.Name, sum.Execs, sum.PerLevel, sum.BoundCompleted, sum.MaxPoints, len(sum.Outcomes), sum.Leaks))
	r.Note("%s outcomes: %s", sc.Name, strings.Join(ocs, " | "))
	return sum
}

// sigHashBranch: signature the child must reproduce for its prefix: the parent's points [0,i] (the
// alternatives offered at the branching point are the same whichever is taken).
func sigHashBranch(tr []PointRec, i, alt int) [8]byte { return sigHash(tr, i+1) }

var pcTable []string

func loadPCs() {
	if pcTable != nil {
		return
	}
	pcTable = []string{}
	if p := os.Getenv("VERIF_PCS"); p != "" {
		if b, err := os.ReadFile(p); err == nil {
			json.Unmarshal(b, &pcTable)
		}
	}
}

var pcNames = map[int]string{-1: "Mutex.Lock", -2: "RLock", -3: "WaitGroup.Wait", -4: "Once.Do", -5: "Unlock", -6: "atomic", -9: "harness"}

// annotate replaces "pc=N" by source positions.
func annotate(log []string) []string {
	loadPCs()
	out := make([]string, len(log))
	for i, l := range log {
		if j := strings.Index(l, "pc="); j >= 0 {
			var pc int
			fmt.Sscanf(l[j+3:], "%d", &pc)
			name := pcNames[pc]
			if pc >= 0 && pc < len(pcTable) {
				name = pcTable[pc]
			}
			l = l + " <" + name + ">"
		}
		out[i] = l
	}
	return out
}

// Replay runs one recorded execution with tracing and returns it (used by --replay and by unit tests).
func Replay(t *testing.T, sc *Scenario, choices []int) *Exec {
	x := RunOnce(t, sc, choices, true)
	if x.S != nil {
		x.S.Log = annotate(x.S.Log)
	}
	return x
}

// ReplayFile is the part of a replay artefact the scheduler harnesses need.
type ReplayFile struct {
	Scenario string
	Choices  []int
}

// LoadReplay reads a replay file written by check.py ({"replay": {"scenario":..., "choices": [...]}}).
func LoadReplay(path string) (*ReplayFile, error) {
	b, err := os.ReadFile(path)
	if err != nil {
		return nil, err
	}
	var f struct {
		Replay struct {
			Scenario string `json:"scenario"`
			Choices  []int  `json:"choices"`
		} `json:"replay"`
	}
	if err := json.Unmarshal(b, &f); err != nil {
		return nil, err
	}
	return &ReplayFile{Scenario: f.Replay.Scenario, Choices: f.Replay.Choices}, nil
}

// FreeRun executes the scenario n times without the scheduler (plain goroutines, real parallelism inside the
// bubble). It exists for the -race pass: verdicts of the bodies are ignored, only the race detector's output
// matters. Returns the number of runs that ended in a panic other than a goroutine leak.
func FreeRun(t *testing.T, sc *Scenario, n int, deadline time.Time) (runs int, panics int) {
	for i := 0; i < n && time.Now().Before(deadline); i++ {
		// a subtest, so that a report of the race detector (which fails the test it belongs to) does not end
		// the whole pass
		t.Run("free", func(t *testing.T) {
			x := &Exec{T: t}
			defer func() {
				if r := recover(); r != nil {
					msg := fmt.Sprint(r)
					if !strings.Contains(msg, "blocked goroutines remain") && !strings.Contains(msg, "deadlock") {
						panics++
					}
				}
			}()
			synctest.Test(t, func(t *testing.T) {
				opt := sc.Opt
				opt.Free = true
				s := New(opt)
				x.S = s
				sc.Body(x)
			})
		})
		runs++
	}
	return
}

// FreeMode reports whether this process is the free-running race pass.
func FreeMode() bool { return os.Getenv("VERIF_FREE") != "" }
