// Package crashds is the datastore crash seam of engine E3: a datastore.Batching over an in-memory map that
// counts mutating calls (Put / Delete / Batch.Commit) and can make the k-th one
//
//   - stop the process BEFORE the call reaches the store  (FaultStopBefore),
//   - stop the process AFTER the store took the write      (FaultStopAfter),
//   - return an error without touching the store            (FaultError; the process keeps running).
//
// "Stopping the process" is a panic with a *Stop sentinel. The harness runs the code under test inside
// crashds.Run, which recovers exactly that sentinel (any other panic is re-raised); afterwards the object
// under test must be discarded and a fresh one opened on Reopen() - a new Store over a deep copy of the
// surviving content, exactly what a restart on the same datastore would see. Once stopped, the old Store
// refuses every further call with the same sentinel (the process is gone).
//
// Durability model: a Put/Delete/Commit that returned is durable (no write-back buffering). Sync calls are
// counted so a harness can report whether the code under test relies on that.
package crashds

import (
	"context"
	"errors"
	"fmt"
	"sort"
	"sync"

	ds "github.com/ipfs/go-datastore"
	dsq "github.com/ipfs/go-datastore/query"
)

type Fault int

const (
	FaultNone Fault = iota
	FaultStopBefore
	FaultStopAfter
	FaultError
)

func (f Fault) String() string {
	switch f {
	case FaultNone:
		return "none"
	case FaultStopBefore:
		return "stop-before-write"
	case FaultStopAfter:
		return "stop-after-write"
	case FaultError:
		return "write-error"
	}
	return fmt.Sprintf("fault(%d)", int(f))
}

// Stop is the sentinel panic value: the process stopped at mutating call number Call (1-based).
type Stop struct {
	Call  int
	Fault Fault
	Op    string
}

func (s *Stop) String() string { return fmt.Sprintf("process stopped: %s of mutating call #%d (%s)", s.Fault, s.Call, s.Op) }

// ErrInjected is what the faulted call returns for FaultError.
var ErrInjected = errors.New("crashds: injected datastore write error")

type Store struct {
	mu      sync.Mutex
	m       map[ds.Key][]byte
	calls   int // mutating calls seen so far
	syncs   int
	at      int // 1-based index of the mutating call to fault; 0 = never
	fault   Fault
	stopped *Stop
	log     []string
}

var _ ds.Batching = (*Store)(nil)

func New() *Store { return &Store{m: map[ds.Key][]byte{}} }

// Arm makes the k-th (1-based, counted from now on the running total) mutating call fail with f.
func (s *Store) Arm(k int, f Fault) {
	s.mu.Lock()
	s.at, s.fault = k, f
	s.mu.Unlock()
}

// Mutations returns the number of mutating calls seen so far (the faulted one included).
func (s *Store) Mutations() int { s.mu.Lock(); defer s.mu.Unlock(); return s.calls }

// Syncs returns the number of Sync calls seen so far.
func (s *Store) Syncs() int { s.mu.Lock(); defer s.mu.Unlock(); return s.syncs }

// Stopped returns the stop record if the process was stopped.
func (s *Store) Stopped() *Stop { s.mu.Lock(); defer s.mu.Unlock(); return s.stopped }

// Log returns the mutating calls in order ("put /k", "delete /k", "commit n").
func (s *Store) Log() []string { s.mu.Lock(); defer s.mu.Unlock(); return append([]string{}, s.log...) }

// Snapshot returns a deep copy of the surviving content.
func (s *Store) Snapshot() map[string][]byte {
	s.mu.Lock()
	defer s.mu.Unlock()
	out := make(map[string][]byte, len(s.m))
	for k, v := range s.m {
		out[k.String()] = append([]byte{}, v...)
	}
	return out
}

// Keys returns the sorted keys of the surviving content.
func (s *Store) Keys() []string {
	snap := s.Snapshot()
	out := make([]string, 0, len(snap))
	for k := range snap {
		out = append(out, k)
	}
	sort.Strings(out)
	return out
}

// Reopen returns a fresh, un-armed Store over a deep copy of the surviving content.
func (s *Store) Reopen() *Store { return FromSnapshot(s.Snapshot()) }

func FromSnapshot(snap map[string][]byte) *Store {
	n := New()
	for k, v := range snap {
		n.m[ds.RawKey(k)] = append([]byte{}, v...)
	}
	return n
}

// Run runs f and reports whether the process was stopped by an armed Store. Other panics propagate.
func Run(f func()) (stop *Stop) {
	defer func() {
		if r := recover(); r != nil {
			if st, ok := r.(*Stop); ok {
				stop = st
				return
			}
			panic(r)
		}
	}()
	f()
	return nil
}

// alive panics if the process already stopped (must be called with mu held).
func (s *Store) alive() {
	if s.stopped != nil {
		st := s.stopped
		s.mu.Unlock()
		panic(st)
	}
}

// mutate runs one mutating call under the fault plan.
func (s *Store) mutate(op string, apply func()) error {
	s.mu.Lock()
	s.alive()
	s.calls++
	s.log = append(s.log, op)
	f := FaultNone
	if s.at != 0 && s.calls == s.at {
		f = s.fault
	}
	switch f {
	case FaultStopBefore:
		s.stopped = &Stop{Call: s.calls, Fault: f, Op: op}
		st := s.stopped
		s.mu.Unlock()
		panic(st)
	case FaultError:
		s.mu.Unlock()
		return ErrInjected
	}
	apply()
	if f == FaultStopAfter {
		s.stopped = &Stop{Call: s.calls, Fault: f, Op: op}
		st := s.stopped
		s.mu.Unlock()
		panic(st)
	}
	s.mu.Unlock()
	return nil
}

func (s *Store) Put(_ context.Context, key ds.Key, value []byte) error {
	v := append([]byte{}, value...)
	return s.mutate("put "+key.String(), func() { s.m[key] = v })
}

func (s *Store) Delete(_ context.Context, key ds.Key) error {
	return s.mutate("delete "+key.String(), func() { delete(s.m, key) })
}

func (s *Store) Sync(context.Context, ds.Key) error {
	s.mu.Lock()
	s.alive()
	s.syncs++
	s.mu.Unlock()
	return nil
}

func (s *Store) Get(_ context.Context, key ds.Key) ([]byte, error) {
	s.mu.Lock()
	s.alive()
	defer s.mu.Unlock()
	v, ok := s.m[key]
	if !ok {
		return nil, ds.ErrNotFound
	}
	return append([]byte{}, v...), nil
}

func (s *Store) Has(_ context.Context, key ds.Key) (bool, error) {
	s.mu.Lock()
	s.alive()
	defer s.mu.Unlock()
	_, ok := s.m[key]
	return ok, nil
}

func (s *Store) GetSize(_ context.Context, key ds.Key) (int, error) {
	s.mu.Lock()
	s.alive()
	defer s.mu.Unlock()
	v, ok := s.m[key]
	if !ok {
		return -1, ds.ErrNotFound
	}
	return len(v), nil
}

// Query answers from a copy of the content; entries are produced in sorted key order (deterministic).
func (s *Store) Query(_ context.Context, q dsq.Query) (dsq.Results, error) {
	s.mu.Lock()
	s.alive()
	keys := make([]ds.Key, 0, len(s.m))
	for k := range s.m {
		keys = append(keys, k)
	}
	sort.Slice(keys, func(i, j int) bool { return keys[i].String() < keys[j].String() })
	re := make([]dsq.Entry, 0, len(keys))
	for _, k := range keys {
		v := s.m[k]
		e := dsq.Entry{Key: k.String(), Size: len(v)}
		if !q.KeysOnly {
			e.Value = append([]byte{}, v...)
		}
		re = append(re, e)
	}
	s.mu.Unlock()
	return dsq.NaiveQueryApply(q, dsq.ResultsWithEntries(q, re)), nil
}

func (s *Store) Close() error { return nil }

// Batch buffers writes; Commit is ONE mutating call (all-or-nothing under the stop faults).
func (s *Store) Batch(context.Context) (ds.Batch, error) {
	s.mu.Lock()
	s.alive()
	s.mu.Unlock()
	return &batch{s: s}, nil
}

type bop struct {
	key ds.Key
	del bool
	val []byte
}

type batch struct {
	s   *Store
	ops []bop
}

func (b *batch) Put(_ context.Context, key ds.Key, value []byte) error {
	b.ops = append(b.ops, bop{key: key, val: append([]byte{}, value...)})
	return nil
}

func (b *batch) Delete(_ context.Context, key ds.Key) error {
	b.ops = append(b.ops, bop{key: key, del: true})
	return nil
}

func (b *batch) Commit(context.Context) error {
	ops := b.ops
	b.ops = nil
	return b.s.mutate(fmt.Sprintf("commit %d", len(ops)), func() {
		for _, o := range ops {
			if o.del {
				delete(b.s.m, o.key)
			} else {
				b.s.m[o.key] = o.val
			}
		}
	})
}
