package memnet

import (
	"net"
	"sync"

	ma "github.com/multiformats/go-multiaddr"
	manet "github.com/multiformats/go-multiaddr/net"
)

// Listener is an in-memory manet.Listener. The harness feeds its accept queue with Push. Close unblocks
// Accept with an error containing "use of closed network connection", like a real TCP listener, and
// aborts (never "closes") whatever is still in the backlog.
type Listener struct {
	mu         sync.Mutex
	cond       sync.Cond
	addr       ma.Multiaddr
	naddr      net.Addr
	q          []*Conn
	closed     bool
	closeCalls int
	accepted   []*Conn
	pushed     []*Conn
	dropped    []*Conn
	onAccept   func(n int, c *Conn)
}

var _ manet.Listener = (*Listener)(nil)

// Listen creates a listener with the given multiaddr (default /ip4/127.0.0.1/tcp/4002).
func Listen(addr ma.Multiaddr) *Listener {
	if addr == nil {
		addr = ma.StringCast("/ip4/127.0.0.1/tcp/4002")
	}
	l := &Listener{addr: addr, naddr: netAddr(addr)}
	l.cond.L = &l.mu
	return l
}

// Push queues one end for Accept. If the listener is closed the end is aborted and false is returned
// ("connection refused").
func (l *Listener) Push(c *Conn) bool {
	l.mu.Lock()
	if l.closed {
		l.dropped = append(l.dropped, c)
		l.mu.Unlock()
		c.Abort()
		return false
	}
	l.q = append(l.q, c)
	l.pushed = append(l.pushed, c)
	l.cond.Broadcast()
	l.mu.Unlock()
	return true
}

// SetOnAccept installs a hook called (without lock) when the n-th connection is handed out by Accept.
func (l *Listener) SetOnAccept(f func(n int, c *Conn)) {
	l.mu.Lock()
	l.onAccept = f
	l.mu.Unlock()
}

func (l *Listener) closedErr(op string) error {
	return &net.OpError{Op: op, Net: "tcp", Addr: l.naddr, Err: net.ErrClosed}
}

func (l *Listener) Accept() (manet.Conn, error) {
	l.mu.Lock()
	for {
		if l.closed {
			l.mu.Unlock()
			return nil, l.closedErr("accept")
		}
		if len(l.q) > 0 {
			c := l.q[0]
			l.q = l.q[1:]
			l.accepted = append(l.accepted, c)
			n := len(l.accepted) - 1
			hook := l.onAccept
			l.mu.Unlock()
			if hook != nil {
				hook(n, c)
			}
			return c, nil
		}
		l.cond.Wait()
	}
}

func (l *Listener) Close() error {
	l.mu.Lock()
	l.closeCalls++
	if l.closed {
		l.mu.Unlock()
		return l.closedErr("close")
	}
	l.closed = true
	backlog := l.q
	l.q = nil
	l.dropped = append(l.dropped, backlog...)
	l.cond.Broadcast()
	l.mu.Unlock()
	for _, c := range backlog {
		c.Abort()
	}
	return nil
}

func (l *Listener) Multiaddr() ma.Multiaddr { return l.addr }
func (l *Listener) Addr() net.Addr          { return l.naddr }

// CloseCalls returns how many times Close was called.
func (l *Listener) CloseCalls() int {
	l.mu.Lock()
	defer l.mu.Unlock()
	return l.closeCalls
}

// Accepted returns the ends handed out by Accept so far (these are owned by the code under test).
func (l *Listener) Accepted() []*Conn {
	l.mu.Lock()
	defer l.mu.Unlock()
	return append([]*Conn(nil), l.accepted...)
}

// WasAccepted reports whether c was handed out by Accept.
func (l *Listener) WasAccepted(c *Conn) bool {
	for _, x := range l.Accepted() {
		if x == c {
			return true
		}
	}
	return false
}

// WasPushed reports whether c entered the backlog (false: the listener was already closed, "refused").
func (l *Listener) WasPushed(c *Conn) bool {
	l.mu.Lock()
	defer l.mu.Unlock()
	for _, x := range l.pushed {
		if x == c {
			return true
		}
	}
	return false
}

// Backlog returns the number of queued, not yet accepted ends.
func (l *Listener) Backlog() int {
	l.mu.Lock()
	defer l.mu.Unlock()
	return len(l.q)
}
