package memnet

import (
	"bytes"
	"crypto/sha256"
	"encoding/binary"
	"regexp"
	"runtime"
	"strings"
)

var bubbleRe = regexp.MustCompile(`synctest bubble (\d+)`)

// BubbleGoroutines returns the stack dumps of every goroutine that belongs to the synctest bubble of the
// calling goroutine, excluding the caller itself and goroutines whose stack contains one of the `ignore`
// substrings. Outside a bubble it returns (nil, false). The runtime marks bubble membership in the
// goroutine header ("goroutine 12 [chan receive (durable), synctest bubble 3]:").
func BubbleGoroutines(ignore ...string) (stacks []string, inBubble bool) {
	self := make([]byte, 2048)
	self = self[:runtime.Stack(self, false)]
	hdr := self
	if i := bytes.IndexByte(self, '\n'); i >= 0 {
		hdr = self[:i]
	}
	m := bubbleRe.FindSubmatch(hdr)
	if m == nil {
		return nil, false
	}
	tag := "synctest bubble " + string(m[1]) + "]"
	selfID := goroutineID(string(hdr))
	buf := make([]byte, 1<<20)
	for {
		n := runtime.Stack(buf, true)
		if n < len(buf) {
			buf = buf[:n]
			break
		}
		buf = make([]byte, 2*len(buf))
	}
next:
	for _, g := range strings.Split(string(buf), "\n\n") {
		g = strings.TrimSpace(g)
		if g == "" {
			continue
		}
		h := g
		if i := strings.IndexByte(g, '\n'); i >= 0 {
			h = g[:i]
		}
		if !strings.Contains(h, tag) || goroutineID(h) == selfID {
			continue
		}
		// the goroutine that called synctest.Test (it is the bubble's root while Run is in progress) and
		// the testing package's relay goroutine are part of every bubble
		if strings.Contains(g, "internal/synctest.Run(") || strings.Contains(g, "testing/synctest.testingSynctestTest(") {
			continue
		}
		for _, ig := range ignore {
			if strings.Contains(g, ig) {
				continue next
			}
		}
		stacks = append(stacks, g)
	}
	return stacks, true
}

func goroutineID(header string) string {
	f := strings.Fields(header)
	if len(f) >= 2 && f[0] == "goroutine" {
		return f[1]
	}
	return ""
}

// TopFrames condenses a goroutine dump to its state and the first n function names (for stable keys and
// short descriptions).
func TopFrames(stack string, n int) string {
	lines := strings.Split(stack, "\n")
	var out []string
	if len(lines) > 0 {
		h := lines[0]
		if i := strings.IndexByte(h, '['); i >= 0 {
			h = h[i:]
		}
		out = append(out, h)
	}
	for _, l := range lines[1:] {
		if strings.HasPrefix(l, "\t") || strings.HasPrefix(l, "created by") {
			continue
		}
		if i := strings.LastIndexByte(l, '('); i > 0 {
			l = l[:i]
		}
		out = append(out, l)
		if len(out) > n {
			break
		}
	}
	return strings.Join(out, " < ")
}

// SeedReader is a deterministic byte stream (SHA-256 in counter mode) for reproducible key generation.
type SeedReader struct {
	seed [32]byte
	ctr  uint64
	buf  []byte
}

func NewSeedReader(label string, seed int64) *SeedReader {
	var s [8]byte
	binary.BigEndian.PutUint64(s[:], uint64(seed))
	return &SeedReader{seed: sha256.Sum256(append([]byte(label), s[:]...))}
}

func (r *SeedReader) Read(p []byte) (int, error) {
	for i := range p {
		if len(r.buf) == 0 {
			var c [8]byte
			binary.BigEndian.PutUint64(c[:], r.ctr)
			r.ctr++
			h := sha256.Sum256(append(r.seed[:], c[:]...))
			r.buf = h[:]
		}
		p[i] = r.buf[0]
		r.buf = r.buf[1:]
	}
	return len(p), nil
}
