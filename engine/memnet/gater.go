package memnet

import (
	"fmt"
	"sync"

	"github.com/libp2p/go-libp2p/core/connmgr"
	"github.com/libp2p/go-libp2p/core/control"
	"github.com/libp2p/go-libp2p/core/network"
	"github.com/libp2p/go-libp2p/core/peer"
	ma "github.com/multiformats/go-multiaddr"
)

// Gater hook names.
const (
	HookPeerDial = "InterceptPeerDial"
	HookAddrDial = "InterceptAddrDial"
	HookAccept   = "InterceptAccept"
	HookSecured  = "InterceptSecured"
	HookUpgraded = "InterceptUpgraded"
)

// GaterHooks lists the hooks in a fixed order.
var GaterHooks = []string{HookPeerDial, HookAddrDial, HookAccept, HookSecured, HookUpgraded}

// Gater is a scripted connmgr.ConnectionGater: it allows everything except the armed (hook, n) call.
type Gater struct {
	mu       sync.Mutex
	counts   map[string]int
	reject   map[string]int
	rejected []string
	onCall   func(hook string, n int)
}

var _ connmgr.ConnectionGater = (*Gater)(nil)

func NewGater() *Gater { return &Gater{counts: map[string]int{}, reject: map[string]int{}} }

// Reject arms a rejection at the n-th (0-based) call of the hook.
func (g *Gater) Reject(hook string, n int) {
	g.mu.Lock()
	g.reject[hook] = n
	g.mu.Unlock()
}

// SetOnCall installs a hook called (without lock) on every gater call.
func (g *Gater) SetOnCall(f func(hook string, n int)) {
	g.mu.Lock()
	g.onCall = f
	g.mu.Unlock()
}

func (g *Gater) Counts() map[string]int {
	g.mu.Lock()
	defer g.mu.Unlock()
	m := make(map[string]int, len(g.counts))
	for k, v := range g.counts {
		m[k] = v
	}
	return m
}

func (g *Gater) Rejected() []string {
	g.mu.Lock()
	defer g.mu.Unlock()
	return append([]string(nil), g.rejected...)
}

func (g *Gater) allow(hook string) bool {
	g.mu.Lock()
	n := g.counts[hook]
	g.counts[hook] = n + 1
	want, armed := g.reject[hook]
	f := g.onCall
	ok := true
	if armed && want == n {
		ok = false
		g.rejected = append(g.rejected, fmt.Sprintf("%s#%d", hook, n))
	}
	g.mu.Unlock()
	if f != nil {
		f(hook, n)
	}
	return ok
}

func (g *Gater) InterceptPeerDial(peer.ID) bool               { return g.allow(HookPeerDial) }
func (g *Gater) InterceptAddrDial(peer.ID, ma.Multiaddr) bool { return g.allow(HookAddrDial) }
func (g *Gater) InterceptAccept(network.ConnMultiaddrs) bool  { return g.allow(HookAccept) }
func (g *Gater) InterceptSecured(network.Direction, peer.ID, network.ConnMultiaddrs) bool {
	return g.allow(HookSecured)
}
func (g *Gater) InterceptUpgraded(network.Conn) (bool, control.DisconnectReason) {
	return g.allow(HookUpgraded), 0
}
