package memnet

import (
	"fmt"
	"sort"
	"sync"

	"github.com/libp2p/go-libp2p/core/network"
	"github.com/libp2p/go-libp2p/core/peer"
	"github.com/libp2p/go-libp2p/core/protocol"
	rcmgr "github.com/libp2p/go-libp2p/p2p/host/resource-manager"
	ma "github.com/multiformats/go-multiaddr"
)

// Call kinds counted (and refusable) by the Rcmgr decorator.
const (
	CallOpenConnection = "OpenConnection"
	CallSetPeer        = "SetPeer"
	CallBeginSpan      = "BeginSpan"     // on a peer scope (what the stream muxer uses)
	CallReserveMemory  = "ReserveMemory" // on a peer scope or on a span of a peer scope
	CallOpenStream     = "OpenStream"
	CallSetProtocol    = "SetProtocol"
	CallSetService     = "SetService"
	CallStreamReserve  = "StreamReserveMemory" // on a stream scope
)

// RcmgrCalls lists the call kinds in a fixed order.
var RcmgrCalls = []string{CallOpenConnection, CallSetPeer, CallBeginSpan, CallReserveMemory, CallOpenStream, CallSetProtocol, CallSetService, CallStreamReserve}

// Rcmgr decorates a real resource manager: it counts the calls of each kind and refuses exactly the
// armed (kind, n) call WITHOUT forwarding it; everything else is delegated, so the real accounting stays
// observable through Real.
type Rcmgr struct {
	network.ResourceManager // the real manager: View*, VerifySourceAddress, Close are delegated as they are

	mu      sync.Mutex
	counts  map[string]int
	refuse  map[string]int
	refused []string
	onCall  func(kind string, n int)
}

var _ network.ResourceManager = (*Rcmgr)(nil)

func NewRcmgr(real network.ResourceManager) *Rcmgr {
	return &Rcmgr{ResourceManager: real, counts: map[string]int{}, refuse: map[string]int{}}
}

// Real returns the decorated manager.
func (r *Rcmgr) Real() network.ResourceManager { return r.ResourceManager }

// Refuse arms a refusal of the n-th (0-based) call of the given kind.
func (r *Rcmgr) Refuse(kind string, n int) {
	r.mu.Lock()
	r.refuse[kind] = n
	r.mu.Unlock()
}

// SetOnCall installs a hook called (without lock) on every counted call.
func (r *Rcmgr) SetOnCall(f func(kind string, n int)) {
	r.mu.Lock()
	r.onCall = f
	r.mu.Unlock()
}

// Counts returns a copy of the per-kind call counters.
func (r *Rcmgr) Counts() map[string]int {
	r.mu.Lock()
	defer r.mu.Unlock()
	m := make(map[string]int, len(r.counts))
	for k, v := range r.counts {
		m[k] = v
	}
	return m
}

// Refused lists the refusals that actually happened as "kind#n".
func (r *Rcmgr) Refused() []string {
	r.mu.Lock()
	defer r.mu.Unlock()
	return append([]string(nil), r.refused...)
}

func (r *Rcmgr) hit(kind string) error {
	r.mu.Lock()
	n := r.counts[kind]
	r.counts[kind] = n + 1
	want, armed := r.refuse[kind]
	hook := r.onCall
	var err error
	if armed && want == n {
		r.refused = append(r.refused, fmt.Sprintf("%s#%d", kind, n))
		err = fmt.Errorf("memnet: refusing %s #%d: %w", kind, n, network.ErrResourceLimitExceeded)
	}
	r.mu.Unlock()
	if hook != nil {
		hook(kind, n)
	}
	return err
}

func (r *Rcmgr) OpenConnection(dir network.Direction, usefd bool, endpoint ma.Multiaddr) (network.ConnManagementScope, error) {
	if err := r.hit(CallOpenConnection); err != nil {
		return nil, err
	}
	cs, err := r.ResourceManager.OpenConnection(dir, usefd, endpoint)
	if err != nil {
		return nil, err
	}
	return &connScope{ConnManagementScope: cs, r: r}, nil
}

func (r *Rcmgr) OpenStream(p peer.ID, dir network.Direction) (network.StreamManagementScope, error) {
	if err := r.hit(CallOpenStream); err != nil {
		return nil, err
	}
	ss, err := r.ResourceManager.OpenStream(p, dir)
	if err != nil {
		return nil, err
	}
	return &streamScope{StreamManagementScope: ss, r: r}, nil
}

type connScope struct {
	network.ConnManagementScope
	r *Rcmgr
}

func (s *connScope) SetPeer(p peer.ID) error {
	if err := s.r.hit(CallSetPeer); err != nil {
		return err
	}
	return s.ConnManagementScope.SetPeer(p)
}

func (s *connScope) PeerScope() network.PeerScope {
	ps := s.ConnManagementScope.PeerScope()
	if ps == nil {
		return nil
	}
	return &peerScope{PeerScope: ps, r: s.r}
}

type peerScope struct {
	network.PeerScope
	r *Rcmgr
}

func (s *peerScope) BeginSpan() (network.ResourceScopeSpan, error) {
	if err := s.r.hit(CallBeginSpan); err != nil {
		return nil, err
	}
	sp, err := s.PeerScope.BeginSpan()
	if err != nil {
		return nil, err
	}
	return &span{ResourceScopeSpan: sp, r: s.r}, nil
}

func (s *peerScope) ReserveMemory(size int, prio uint8) error {
	if err := s.r.hit(CallReserveMemory); err != nil {
		return err
	}
	return s.PeerScope.ReserveMemory(size, prio)
}

type span struct {
	network.ResourceScopeSpan
	r *Rcmgr
}

func (s *span) ReserveMemory(size int, prio uint8) error {
	if err := s.r.hit(CallReserveMemory); err != nil {
		return err
	}
	return s.ResourceScopeSpan.ReserveMemory(size, prio)
}

type streamScope struct {
	network.StreamManagementScope
	r *Rcmgr
}

func (s *streamScope) SetProtocol(p protocol.ID) error {
	if err := s.r.hit(CallSetProtocol); err != nil {
		return err
	}
	return s.StreamManagementScope.SetProtocol(p)
}

func (s *streamScope) SetService(svc string) error {
	if err := s.r.hit(CallSetService); err != nil {
		return err
	}
	return s.StreamManagementScope.SetService(svc)
}

func (s *streamScope) ReserveMemory(size int, prio uint8) error {
	if err := s.r.hit(CallStreamReserve); err != nil {
		return err
	}
	return s.StreamManagementScope.ReserveMemory(size, prio)
}

// ---- audit: snapshots of a real resource manager ----

// Snap is the usage of every scope a resource manager lists.
type Snap struct {
	System, Transient network.ScopeStat
	Peers             map[string]network.ScopeStat
	Protocols         map[string]network.ScopeStat
	Services          map[string]network.ScopeStat
}

// Snapshot reads Stat() of system, transient and every peer / protocol / service scope of rm (which must
// be, or decorate, a manager implementing rcmgr.ResourceManagerState).
func Snapshot(rm network.ResourceManager) (Snap, error) {
	if d, ok := rm.(*Rcmgr); ok {
		rm = d.Real()
	}
	st, ok := rm.(rcmgr.ResourceManagerState)
	if !ok {
		return Snap{}, fmt.Errorf("%T does not implement ResourceManagerState", rm)
	}
	x := st.Stat()
	s := Snap{System: x.System, Transient: x.Transient, Peers: map[string]network.ScopeStat{}, Protocols: map[string]network.ScopeStat{}, Services: map[string]network.ScopeStat{}}
	for k, v := range x.Peers {
		s.Peers[k.String()] = v
	}
	for k, v := range x.Protocols {
		s.Protocols[string(k)] = v
	}
	for k, v := range x.Services {
		s.Services[k] = v
	}
	return s, nil
}

// Diff lists every scope whose usage differs between two snapshots (a scope missing from one side counts
// as zero usage there). Sorted, deterministic.
func (a Snap) Diff(b Snap) []string {
	var out []string
	cmp := func(name string, x, y network.ScopeStat) {
		if x != y {
			out = append(out, fmt.Sprintf("%s: before %+v after %+v", name, x, y))
		}
	}
	cmp("system", a.System, b.System)
	cmp("transient", a.Transient, b.Transient)
	maps := func(kind string, x, y map[string]network.ScopeStat) {
		keys := map[string]struct{}{}
		for k := range x {
			keys[k] = struct{}{}
		}
		for k := range y {
			keys[k] = struct{}{}
		}
		ks := make([]string, 0, len(keys))
		for k := range keys {
			ks = append(ks, k)
		}
		sort.Strings(ks)
		for _, k := range ks {
			cmp(kind+":"+k, x[k], y[k])
		}
	}
	maps("peer", a.Peers, b.Peers)
	maps("protocol", a.Protocols, b.Protocols)
	maps("service", a.Services, b.Services)
	return out
}

// IsZero reports whether every listed scope has zero usage.
func (a Snap) IsZero() bool { return len(Snap{}.Diff(a)) == 0 }
