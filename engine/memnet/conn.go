// Package memnet provides in-memory network fixtures for the fault-enumeration harnesses (engine E3):
//
//   - Conn: one end of a buffered duplex byte pipe. It implements net.Conn and manet.Conn (any multiaddr
//     can be assigned), blocks on a sync.Cond (durably blocking inside a testing/synctest bubble), implements
//     read/write deadlines with timers created where the call happens (bubble timers inside a bubble, so
//     "stall until the deadline" is free), numbers every Read/Write call of the end (operation index k),
//     can arm exactly one fault per index, calls an OnOp hook when index k is reached, and records whether
//     and how often the owner called Close.
//   - Listener: a manet.Listener whose accept queue is fed by the harness.
//   - Rcmgr / Gater: a refusing decorator around a real resource manager and a scripted connection gater.
//   - audit helpers: resource-manager snapshots and the list of goroutines of the current synctest bubble.
//
// Nothing here imports the packages under test (upgrader, swarm, hosts), so white-box harnesses of those
// packages can import it.
package memnet

import (
	"fmt"
	"io"
	"net"
	"os"
	"sync"
	"syscall"
	"time"

	ma "github.com/multiformats/go-multiaddr"
	manet "github.com/multiformats/go-multiaddr/net"
)

// OpKind is the kind of an intercepted I/O call.
type OpKind byte

const (
	OpRead  OpKind = 'R'
	OpWrite OpKind = 'W'
)

// Fault is an event that happens at the instant an end begins its k-th I/O call. All faults are sticky:
// they model a change of the state of the link, not a one-off return value.
type Fault int

const (
	FaultNone Fault = iota
	// FaultReadErr: from now on every Read of this end (including one that is already blocked) fails with
	// a connection-reset error. Writes are unaffected.
	FaultReadErr
	// FaultWriteErr: from now on every Write of this end fails with a broken-pipe error.
	FaultWriteErr
	// FaultEOF: the inbound byte stream of this end is cut here: pending and future inbound bytes are
	// dropped and every Read returns io.EOF (as if the peer had half-closed early). Writes still work.
	FaultEOF
	// FaultPeerClose: the link is torn down as if the remote host had closed its socket: on BOTH ends
	// reads return io.EOF and writes fail. Neither end is marked as closed by its owner - each owner must
	// still call Close on its end.
	FaultPeerClose
	// FaultStall: the link turns into a black hole for this end: every Read of this end (including a
	// blocked one) blocks until its deadline expires (timeout error) or the end is closed, whatever the
	// peer sends; Writes are accepted and vanish (what a TCP socket does while its send buffer has room).
	// Writes deliberately do not block: crypto/tls and yamux hold a sync.Mutex while they write their
	// close-notify / go-away with a write deadline, and a goroutine waiting for a sync.Mutex is not
	// "durably blocked" for synctest, so virtual time could never reach that deadline.
	FaultStall
	// FaultReadErrOnce / FaultWriteErrOnce: exactly one Read resp. Write (the k-th call if it is of that
	// kind, else the next one of that kind) fails with a connection-reset / broken-pipe error; the link
	// itself stays intact (a transient error). Not part of the statement's menu; thorough tier only.
	FaultReadErrOnce
	FaultWriteErrOnce
)

var faultNames = []string{"none", "read-error", "write-error", "eof", "peer-close", "stall", "read-error-once", "write-error-once"}

func (f Fault) String() string {
	if int(f) < len(faultNames) {
		return faultNames[f]
	}
	return fmt.Sprintf("fault(%d)", int(f))
}

// IOFaults is the fault menu of the property statements, in a fixed order.
var IOFaults = []Fault{FaultReadErr, FaultWriteErr, FaultEOF, FaultPeerClose, FaultStall}

// TransientIOFaults are the one-shot errors (extra depth, not in the statement's menu).
var TransientIOFaults = []Fault{FaultReadErrOnce, FaultWriteErrOnce}

// FaultByName finds a fault by its String() form.
func FaultByName(name string) (Fault, bool) {
	for i, n := range faultNames {
		if n == name && i > 0 {
			return Fault(i), true
		}
	}
	return FaultNone, false
}

// Op describes one intercepted I/O call.
type Op struct {
	Index int    // per-end index, counted from 0 in call order
	Kind  OpKind // read or write
	Len   int    // len of the caller's buffer
}

// OpRec is one entry of the per-end operation log.
type OpRec struct {
	Kind OpKind
	Len  int
	N    int
	Err  string
}

func (o OpRec) String() string { return fmt.Sprintf("%c%d->%d %s", o.Kind, o.Len, o.N, o.Err) }

// ErrInjected marks errors produced by an armed fault.
type injected struct{ syscall.Errno }

func (e injected) Error() string { return "memnet injected fault: " + e.Errno.Error() }

type timeoutError struct{}

func (timeoutError) Error() string   { return "i/o timeout" }
func (timeoutError) Timeout() bool   { return true }
func (timeoutError) Temporary() bool { return true }
func (timeoutError) Is(err error) bool {
	return err == os.ErrDeadlineExceeded
}

// shared holds the lock and condition variable of a pair.
type shared struct {
	mu   sync.Mutex
	cond sync.Cond
}

type deadline struct {
	t     time.Time
	timer *time.Timer
}

// Conn is one end of an in-memory connection.
type Conn struct {
	s    *shared
	peer *Conn
	name string

	laddr, raddr ma.Multiaddr
	lna, rna     net.Addr

	in    []byte // bytes written by the peer and not yet read
	inCap int

	closed     bool // the owner called Close
	closeCalls int
	aborted    bool // the harness / listener discarded the end
	severed    bool // FaultPeerClose hit the link
	rdErr      error
	wrErr      error
	rdErrOnce  bool
	wrErrOnce  bool
	eof        bool
	stalled    bool
	rdl, wdl   deadline

	nops   int
	log    []OpRec
	faults map[int]Fault
	fired  []string
	onOp   func(Op)
}

var _ manet.Conn = (*Conn)(nil)

// PairConfig configures NewPair. Zero values give /ip4/127.0.0.1/tcp/{4001,4002} and 1 MiB buffers.
type PairConfig struct {
	NameA, NameB string
	AddrA, AddrB ma.Multiaddr // local multiaddr of end A resp. B
	BufSize      int
}

// NewPair creates a connected pair. Inside a synctest bubble it must be created inside the bubble.
func NewPair(cfg PairConfig) (a, b *Conn) {
	if cfg.AddrA == nil {
		cfg.AddrA = ma.StringCast("/ip4/127.0.0.1/tcp/4001")
	}
	if cfg.AddrB == nil {
		cfg.AddrB = ma.StringCast("/ip4/127.0.0.1/tcp/4002")
	}
	if cfg.BufSize <= 0 {
		cfg.BufSize = 1 << 20
	}
	if cfg.NameA == "" {
		cfg.NameA = "A"
	}
	if cfg.NameB == "" {
		cfg.NameB = "B"
	}
	s := &shared{}
	s.cond.L = &s.mu
	na, nb := netAddr(cfg.AddrA), netAddr(cfg.AddrB)
	a = &Conn{s: s, name: cfg.NameA, laddr: cfg.AddrA, raddr: cfg.AddrB, lna: na, rna: nb, inCap: cfg.BufSize, faults: map[int]Fault{}}
	b = &Conn{s: s, name: cfg.NameB, laddr: cfg.AddrB, raddr: cfg.AddrA, lna: nb, rna: na, inCap: cfg.BufSize, faults: map[int]Fault{}}
	a.peer, b.peer = b, a
	return a, b
}

type memAddr string

func (a memAddr) Network() string { return "memnet" }
func (a memAddr) String() string  { return string(a) }

func netAddr(m ma.Multiaddr) net.Addr {
	if na, err := manet.ToNetAddr(m); err == nil {
		return na
	}
	return memAddr(m.String())
}

// ---- harness side ----

// SetFault arms fault f at operation index k of this end (one fault per index).
func (c *Conn) SetFault(k int, f Fault) {
	c.s.mu.Lock()
	c.faults[k] = f
	c.s.mu.Unlock()
}

// SetOnOp installs a hook that is called (without any lock held, in the goroutine doing the I/O) at the
// beginning of every Read/Write call of this end, before a fault armed at that index takes effect.
func (c *Conn) SetOnOp(f func(Op)) {
	c.s.mu.Lock()
	c.onOp = f
	c.s.mu.Unlock()
}

// Inject applies a fault right now (not tied to an operation index).
func (c *Conn) Inject(f Fault) {
	c.s.mu.Lock()
	c.apply(f, -1)
	c.s.mu.Unlock()
}

// Ops returns the number of I/O calls this end has seen.
func (c *Conn) Ops() int {
	c.s.mu.Lock()
	defer c.s.mu.Unlock()
	return c.nops
}

// Log returns a copy of the operation log.
func (c *Conn) Log() []OpRec {
	c.s.mu.Lock()
	defer c.s.mu.Unlock()
	return append([]OpRec(nil), c.log...)
}

// Kinds returns the kinds of the logged operations as a string like "WRWRRW".
func (c *Conn) Kinds() string {
	c.s.mu.Lock()
	defer c.s.mu.Unlock()
	b := make([]byte, len(c.log))
	for i, o := range c.log {
		b[i] = byte(o.Kind)
	}
	return string(b)
}

// Fired lists the faults that actually took effect, as "fault@index".
func (c *Conn) Fired() []string {
	c.s.mu.Lock()
	defer c.s.mu.Unlock()
	return append([]string(nil), c.fired...)
}

// CloseCalls returns how many times the owner called Close on this end.
func (c *Conn) CloseCalls() int {
	c.s.mu.Lock()
	defer c.s.mu.Unlock()
	return c.closeCalls
}

// Closed reports whether the owner called Close on this end.
func (c *Conn) Closed() bool { return c.CloseCalls() > 0 }

// Aborted reports whether the end was discarded by Abort (listener backlog dropped, harness cleanup).
func (c *Conn) Aborted() bool {
	c.s.mu.Lock()
	defer c.s.mu.Unlock()
	return c.aborted
}

// Abort tears the link down from outside (both ends see EOF / write errors, blocked calls return). It
// is NOT counted as a Close by the owner. Used by Listener.Close for the backlog and by harness cleanup.
func (c *Conn) Abort() {
	c.s.mu.Lock()
	c.aborted = true
	c.peer.aborted = true
	c.severed, c.peer.severed = true, true
	c.stalled, c.peer.stalled = false, false
	c.s.cond.Broadcast()
	c.s.mu.Unlock()
}

// Name returns the label given at construction.
func (c *Conn) Name() string { return c.name }

// Peer returns the other end.
func (c *Conn) Peer() *Conn { return c.peer }

// apply must be called with the lock held.
func (c *Conn) apply(f Fault, k int) {
	switch f {
	case FaultNone:
		return
	case FaultReadErr:
		c.rdErr = &net.OpError{Op: "read", Net: "tcp", Source: c.lna, Addr: c.rna, Err: injected{syscall.ECONNRESET}}
	case FaultWriteErr:
		c.wrErr = &net.OpError{Op: "write", Net: "tcp", Source: c.lna, Addr: c.rna, Err: injected{syscall.EPIPE}}
	case FaultEOF:
		c.eof = true
		c.in = nil
	case FaultPeerClose:
		c.severed, c.peer.severed = true, true
	case FaultStall:
		c.stalled = true
	case FaultReadErrOnce:
		c.rdErrOnce = true
	case FaultWriteErrOnce:
		c.wrErrOnce = true
	}
	c.fired = append(c.fired, fmt.Sprintf("%s@%d", f, k))
	c.s.cond.Broadcast()
}

// begin numbers the call, runs the hook and applies an armed fault. Returns the index and the log slot.
func (c *Conn) begin(kind OpKind, n int) int {
	c.s.mu.Lock()
	k := c.nops
	c.nops++
	c.log = append(c.log, OpRec{Kind: kind, Len: n, N: -1})
	hook := c.onOp
	c.s.mu.Unlock()
	if hook != nil {
		hook(Op{Index: k, Kind: kind, Len: n})
	}
	c.s.mu.Lock()
	if f, ok := c.faults[k]; ok {
		delete(c.faults, k)
		c.apply(f, k)
	}
	return k // lock is held
}

func (c *Conn) end(k, n int, err error) {
	c.log[k].N = n
	if err != nil {
		c.log[k].Err = err.Error()
	}
	c.s.mu.Unlock()
}

func (d *deadline) expired() bool { return !d.t.IsZero() && !time.Now().Before(d.t) }

func (c *Conn) closedErr(op string) error {
	return &net.OpError{Op: op, Net: "tcp", Source: c.lna, Addr: c.rna, Err: net.ErrClosed}
}

func (c *Conn) timeoutErr(op string) error {
	return &net.OpError{Op: op, Net: "tcp", Source: c.lna, Addr: c.rna, Err: timeoutError{}}
}

// ---- net.Conn ----

func (c *Conn) Read(b []byte) (int, error) {
	k := c.begin(OpRead, len(b))
	for {
		if c.closed {
			err := c.closedErr("read")
			c.end(k, 0, err)
			return 0, err
		}
		if c.rdErr != nil {
			err := c.rdErr
			c.end(k, 0, err)
			return 0, err
		}
		if c.rdErrOnce {
			c.rdErrOnce = false
			err := &net.OpError{Op: "read", Net: "tcp", Source: c.lna, Addr: c.rna, Err: injected{syscall.ECONNRESET}}
			c.end(k, 0, err)
			return 0, err
		}
		if !c.stalled {
			if c.eof {
				c.end(k, 0, io.EOF)
				return 0, io.EOF
			}
			if len(b) == 0 {
				c.end(k, 0, nil)
				return 0, nil
			}
			if len(c.in) > 0 && !c.severed {
				n := copy(b, c.in)
				c.in = c.in[n:]
				if len(c.in) == 0 {
					c.in = nil
				}
				c.s.cond.Broadcast()
				c.end(k, n, nil)
				return n, nil
			}
			if c.severed || c.peer.closed {
				c.end(k, 0, io.EOF)
				return 0, io.EOF
			}
		}
		if c.rdl.expired() {
			err := c.timeoutErr("read")
			c.end(k, 0, err)
			return 0, err
		}
		c.s.cond.Wait()
	}
}

func (c *Conn) Write(b []byte) (int, error) {
	k := c.begin(OpWrite, len(b))
	done := 0
	for {
		if c.closed {
			err := c.closedErr("write")
			c.end(k, done, err)
			return done, err
		}
		if c.wrErr != nil {
			err := c.wrErr
			c.end(k, done, err)
			return done, err
		}
		if c.wrErrOnce {
			c.wrErrOnce = false
			err := &net.OpError{Op: "write", Net: "tcp", Source: c.lna, Addr: c.rna, Err: injected{syscall.EPIPE}}
			c.end(k, done, err)
			return done, err
		}
		if c.stalled {
			c.end(k, len(b), nil)
			return len(b), nil
		}
		{
			if c.severed || c.peer.closed {
				err := &net.OpError{Op: "write", Net: "tcp", Source: c.lna, Addr: c.rna, Err: syscall.EPIPE}
				c.end(k, done, err)
				return done, err
			}
			if space := c.peer.inCap - len(c.peer.in); space > 0 || len(b) == done {
				n := len(b) - done
				if n > space {
					n = space
				}
				if !c.peer.eof {
					c.peer.in = append(c.peer.in, b[done:done+n]...)
				}
				done += n
				c.s.cond.Broadcast()
				if done == len(b) {
					c.end(k, done, nil)
					return done, nil
				}
			}
		}
		if c.wdl.expired() {
			err := c.timeoutErr("write")
			c.end(k, done, err)
			return done, err
		}
		c.s.cond.Wait()
	}
}

// Close is what the owner of the end calls. Every call is counted; the second and later calls return
// an error like a real socket does.
func (c *Conn) Close() error {
	c.s.mu.Lock()
	defer c.s.mu.Unlock()
	c.closeCalls++
	if c.closed {
		return c.closedErr("close")
	}
	c.closed = true
	c.in = nil
	c.stopTimers()
	c.s.cond.Broadcast()
	return nil
}

func (c *Conn) stopTimers() {
	for _, d := range []*deadline{&c.rdl, &c.wdl} {
		if d.timer != nil {
			d.timer.Stop()
			d.timer = nil
		}
	}
}

func (c *Conn) LocalAddr() net.Addr                { return c.lna }
func (c *Conn) RemoteAddr() net.Addr               { return c.rna }
func (c *Conn) LocalMultiaddr() ma.Multiaddr       { return c.laddr }
func (c *Conn) RemoteMultiaddr() ma.Multiaddr      { return c.raddr }
func (c *Conn) String() string                     { return "memnet.Conn(" + c.name + ")" }
func (c *Conn) SetDeadline(t time.Time) error      { return c.setDL(t, true, true) }
func (c *Conn) SetReadDeadline(t time.Time) error  { return c.setDL(t, true, false) }
func (c *Conn) SetWriteDeadline(t time.Time) error { return c.setDL(t, false, true) }

func (c *Conn) setDL(t time.Time, rd, wr bool) error {
	c.s.mu.Lock()
	defer c.s.mu.Unlock()
	if c.closed {
		return c.closedErr("set")
	}
	if rd {
		c.arm(&c.rdl, t)
	}
	if wr {
		c.arm(&c.wdl, t)
	}
	c.s.cond.Broadcast()
	return nil
}

func (c *Conn) arm(d *deadline, t time.Time) {
	if d.timer != nil {
		d.timer.Stop()
		d.timer = nil
	}
	d.t = t
	if t.IsZero() {
		return
	}
	if dur := time.Until(t); dur > 0 {
		s := c.s
		d.timer = time.AfterFunc(dur, func() {
			s.mu.Lock()
			s.cond.Broadcast()
			s.mu.Unlock()
		})
	}
}
