// Package vrep is the reporting side of the verification harnesses: every harness part appends one
// JSON record to the file named by $VERIF_OUT; check.py merges the records into the evidence file and
// decides the exit code. Nothing here is specific to one property.
package vrep

import (
	"encoding/json"
	"fmt"
	"os"
	"runtime"
	"sort"
	"strconv"
	"strings"
	"sync"
	"time"
)

// Violation is one failing execution. Key is a canonical class string (used to match the committed
// known-findings file); Replay is everything needed to re-execute exactly this case.
type Violation struct {
	Key    string `json:"key"`
	Desc   string `json:"desc"`
	Replay any    `json:"replay"`
}

// Result is what one harness part covered.
type Result struct {
	Property    string           `json:"property"`
	Part        string           `json:"part"`
	Shard       string           `json:"shard,omitempty"`
	States      int64            `json:"states"`
	Transitions int64            `json:"transitions"`
	Executions  int64            `json:"executions"`
	Distinct    int64            `json:"distinct_nontrivial"`
	Outcomes    map[string]int64 `json:"outcomes,omitempty"`
	Exhaustive  bool             `json:"exhaustive"`
	Bounds      map[string]any   `json:"bounds,omitempty"`
	Caps        []string         `json:"caps_hit,omitempty"`
	Samples     []any            `json:"samples,omitempty"`
	Violations  []Violation      `json:"violations,omitempty"`
	NViolations int64            `json:"n_violations"`
	Notes       []string         `json:"notes,omitempty"`
	WallS       float64          `json:"wall_s"`
	start       time.Time
	mu          sync.Mutex
	kept        map[string]int // violations kept per class (see Violate)
	keptFull    bool
	outSet      map[string]struct{}
}

func New(property, part string) *Result {
	return &Result{Property: property, Part: part, Shard: os.Getenv("VERIF_SHARD"), Outcomes: map[string]int64{},
		Bounds: map[string]any{}, start: time.Now(), Exhaustive: true}
}

// Outcome counts an observed outcome class (bounded number of classes expected).
func (r *Result) Outcome(k string) {
	r.mu.Lock()
	r.Outcomes[k]++
	r.mu.Unlock()
}

// Sample keeps up to 6 sample cases.
func (r *Result) Sample(s any) {
	r.mu.Lock()
	if len(r.Samples) < 6 {
		r.Samples = append(r.Samples, s)
	}
	r.mu.Unlock()
}

func (r *Result) Note(f string, a ...any) {
	r.mu.Lock()
	r.Notes = append(r.Notes, fmt.Sprintf(f, a...))
	r.mu.Unlock()
}

// Cap records that a bound/time cap was hit: the run is then not exhaustive.
func (r *Result) Cap(f string, a ...any) {
	r.mu.Lock()
	r.Caps = append(r.Caps, fmt.Sprintf(f, a...))
	r.Exhaustive = false
	r.mu.Unlock()
}

// Shape is the class of a description for de-duplication: the text with every run of digits removed. Two
// violations are "the same again" only if key, scenario and shape agree; anything else is kept, so that a
// committed known finding (matched on key, scenario and description by check.py) can never hide a violation
// that merely shares its key.
func Shape(desc string) string {
	b := make([]byte, 0, len(desc))
	for i := 0; i < len(desc); i++ {
		if c := desc[i]; c < '0' || c > '9' {
			b = append(b, c)
		}
	}
	return string(b)
}

// MaxKept bounds the violations kept in full per worker (all are counted).
const MaxKept = 300

// Violate records a violation: at most 2 are kept in full per (key, scenario, shape of the description) and at
// most MaxKept altogether; all are counted, and hitting MaxKept is recorded as a note.
func (r *Result) Violate(key, desc string, replay any) {
	r.mu.Lock()
	defer r.mu.Unlock()
	r.NViolations++
	cls := key + "\x00" + Shape(desc)
	if m, ok := replay.(map[string]any); ok {
		for _, f := range []string{"scenario", "search", "part"} {
			if v, ok := m[f]; ok {
				cls += "\x00" + fmt.Sprint(v)
			}
		}
	}
	if r.kept == nil {
		r.kept = map[string]int{}
	}
	if r.kept[cls] >= 2 {
		return
	}
	if len(r.Violations) >= MaxKept {
		if !r.keptFull {
			r.keptFull = true
			r.Notes = append(r.Notes, fmt.Sprintf("more than %d distinct violation classes: the rest is counted but not kept", MaxKept))
		}
		return
	}
	r.kept[cls]++
	r.Violations = append(r.Violations, Violation{Key: key, Desc: desc, Replay: replay})
}

// Flush appends the record to $VERIF_OUT (or prints it when unset).
func (r *Result) Flush() {
	r.mu.Lock()
	defer r.mu.Unlock()
	r.WallS = time.Since(r.start).Seconds()
	if len(r.Outcomes) > 64 {
		// keep the file small: only the 64 most frequent classes, count the rest
		type kv struct {
			k string
			v int64
		}
		var l []kv
		for k, v := range r.Outcomes {
			l = append(l, kv{k, v})
		}
		sort.Slice(l, func(i, j int) bool { return l[i].v > l[j].v || (l[i].v == l[j].v && l[i].k < l[j].k) })
		m := map[string]int64{}
		for _, e := range l[:64] {
			m[e.k] = e.v
		}
		m["(other classes)"] = int64(len(l) - 64)
		r.Notes = append(r.Notes, fmt.Sprintf("outcome classes observed: %d", len(l)))
		r.Outcomes = m
	}
	b, err := json.Marshal(r)
	if err != nil {
		panic(err)
	}
	out := os.Getenv("VERIF_OUT")
	if out == "" {
		fmt.Println(string(b))
		return
	}
	f, err := os.OpenFile(out, os.O_APPEND|os.O_CREATE|os.O_WRONLY, 0o644)
	if err != nil {
		panic(err)
	}
	defer f.Close()
	f.Write(append(b, '\n'))
}

// Tier returns "quick" or "thorough".
func Tier() string {
	if os.Getenv("VERIF_TIER") == "thorough" {
		return "thorough"
	}
	return "quick"
}

func Thorough() bool { return Tier() == "thorough" }

// Shard returns (index, count) of this worker process.
func Shard() (int, int) {
	s := os.Getenv("VERIF_SHARD")
	if s == "" {
		return 0, 1
	}
	p := strings.Split(s, "/")
	i, _ := strconv.Atoi(p[0])
	n, _ := strconv.Atoi(p[1])
	if n <= 0 {
		return 0, 1
	}
	return i, n
}

// Deadline returns the internal deadline of this worker (from $VERIF_DEADLINE_S, default by tier).
func Deadline() time.Time {
	d := 150
	if Thorough() {
		d = 1500
	}
	if s := os.Getenv("VERIF_DEADLINE_S"); s != "" {
		if v, err := strconv.Atoi(s); err == nil {
			d = v
		}
	}
	return procStart.Add(time.Duration(d) * time.Second)
}

var procStart = time.Now()

// MemoryExceeded reports whether this worker's heap has outgrown its budget ($VERIF_MEM_MB, set by check.py from
// the machine's memory and the number of workers; 0 / unset = no budget). Engines poll it between executions and
// stop cleanly with a cap: running out of memory must cost coverage, never the verdict.
func MemoryExceeded() (bool, string) {
	mb, _ := strconv.Atoi(os.Getenv("VERIF_MEM_MB"))
	if mb <= 0 {
		return false, ""
	}
	var ms runtime.MemStats
	runtime.ReadMemStats(&ms)
	if int(ms.HeapAlloc>>20) <= mb {
		return false, ""
	}
	// HeapAlloc counts garbage that has not been collected yet (the state set of a search that has just ended):
	// collect, then decide
	runtime.GC()
	runtime.ReadMemStats(&ms)
	if used := int(ms.HeapAlloc >> 20); used > mb {
		return true, fmt.Sprintf("memory budget reached (live heap %d MB > %d MB)", used, mb)
	}
	return false, ""
}

// ReplayPath returns the replay file given with --replay (empty when exploring).
func ReplayPath() string { return os.Getenv("VERIF_REPLAY") }

// Seed returns $VERIF_SEED (default 1). The harnesses enumerate; the seed only feeds key generation.
func Seed() int64 {
	if s := os.Getenv("VERIF_SEED"); s != "" {
		if v, err := strconv.ParseInt(s, 10, 64); err == nil {
			return v
		}
	}
	return 1
}
