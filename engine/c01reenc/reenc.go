// Package c01reenc is the alphabet "the remote sends its GENUINE identity public key in a different but
// parseable wire encoding" of the C01 harnesses (TLS: the key inside the certificate's libp2p extension;
// Noise: the identity_key field of the handshake payload), and the harness's own derivation of the peer ID of
// a key (libp2p peer-id specification: multihash of the canonical protobuf encoding, identity hash up to 42
// bytes, SHA2-256 above), which does not go through crypto.MarshalPublicKey / peer.IDFromPublicKey.
//
// The identity key travels as the protobuf message
//
//	message PublicKey { required KeyType Type = 1; required bytes Data = 2; }
//
// whose canonical encoding is  08 <type>  12 <len> <data>.  Every encoding below decodes, by the protobuf
// rules, to exactly the same (Type, Data) pair - or, for the "inner" ones, to the same key in another
// encoding of Data that the key type's parser accepts - so a remote that holds the private key may send any
// of them.
package c01reenc

import (
	"fmt"

	"github.com/decred/dcrd/dcrec/secp256k1/v4"
	"github.com/libp2p/go-libp2p/core/crypto"
	"github.com/libp2p/go-libp2p/core/peer"
	mh "github.com/multiformats/go-multihash"
)

// Enc is one wire encoding of a public key.
type Enc struct {
	Name      string
	Bytes     []byte
	Canonical bool
}

func uvarint(v uint64) []byte {
	var b []byte
	for v >= 0x80 {
		b = append(b, byte(v)|0x80)
		v >>= 7
	}
	return append(b, byte(v))
}

// padded: the varint of v with one redundant continuation group (non-minimal, same value).
func padded(v uint64) []byte {
	b := uvarint(v)
	b[len(b)-1] |= 0x80
	return append(b, 0x00)
}

func cat(parts ...[]byte) []byte {
	var out []byte
	for _, p := range parts {
		out = append(out, p...)
	}
	return out
}

// CanonPB is the canonical protobuf encoding of PublicKey{Type: typ, Data: raw}.
func CanonPB(typ int, raw []byte) []byte {
	return cat([]byte{0x08}, uvarint(uint64(typ)), []byte{0x12}, uvarint(uint64(len(raw))), raw)
}

// HashID is the peer ID that hashing exactly these bytes gives.
func HashID(b []byte) (peer.ID, error) {
	var alg uint64 = mh.SHA2_256
	if len(b) <= 42 {
		alg = mh.IDENTITY
	}
	h, err := mh.Sum(b, alg, -1)
	if err != nil {
		return "", err
	}
	return peer.ID(h), nil
}

// CanonID derives the peer ID of a key from its type and raw form only.
func CanonID(k crypto.PubKey) (peer.ID, error) {
	if k == nil {
		return "", fmt.Errorf("nil key")
	}
	raw, err := k.Raw()
	if err != nil {
		return "", err
	}
	return HashID(CanonPB(int(k.Type()), raw))
}

// Encodings returns, in a fixed order, the encodings of the key (typ, raw = PubKey.Raw()). The first one is
// the canonical encoding (control).
func Encodings(typ int, raw []byte) []Enc {
	t := uvarint(uint64(typ))
	typeF := cat([]byte{0x08}, t)
	dataF := cat([]byte{0x12}, uvarint(uint64(len(raw))), raw)
	canon := cat(typeF, dataF)
	unkV := []byte{0x78, 0x01}                   // field 15, varint 1
	unkV2 := []byte{0x78, 0x02}                  // field 15, varint 2
	unkB := []byte{0x1a, 0x03, 'c', '0', '1'}    // field 3, 3 bytes
	unkF := []byte{0x7d, 0x01, 0x00, 0x00, 0x00} // field 15, fixed32
	unkHigh := cat(uvarint(1000<<3), []byte{0x00})
	otherT := uvarint(uint64((typ + 1) % 4))
	out := []Enc{
		{"canonical", canon, true},
		{"unknown varint field appended", cat(canon, unkV), false},
		{"another unknown varint field appended", cat(canon, unkV2), false},
		{"unknown varint field prepended", cat(unkV, canon), false},
		{"unknown varint field between Type and Data", cat(typeF, unkV, dataF), false},
		{"unknown bytes field appended", cat(canon, unkB), false},
		{"unknown fixed32 field appended", cat(canon, unkF), false},
		{"unknown field number 1000 appended", cat(canon, unkHigh), false},
		{"two unknown fields appended", cat(canon, unkV, unkB), false},
		{"fields in reverse order (Data, Type)", cat(dataF, typeF), false},
		{"Type repeated: another type first, the genuine one last (last wins)", cat([]byte{0x08}, otherT, typeF, dataF), false},
		{"Type repeated: the genuine one twice", cat(typeF, typeF, dataF), false},
		{"Data repeated: three garbage bytes first, the genuine key last (last wins)", cat(typeF, []byte{0x12, 0x03, 0xde, 0xad, 0x00}, dataF), false},
		{"Type as a non-minimal varint", cat([]byte{0x08}, padded(uint64(typ)), dataF), false},
		{"Type as a varint with bit 32 set (truncated to 32 bits by the decoder)", cat([]byte{0x08}, uvarint(uint64(typ)|1<<32), dataF), false},
		{"length of Data as a non-minimal varint", cat(typeF, []byte{0x12}, padded(uint64(len(raw))), raw), false},
		{"tag of Type as a non-minimal varint", cat(padded(0x08), t, dataF), false},
		{"tag of Data as a non-minimal varint", cat(typeF, padded(0x12), uvarint(uint64(len(raw))), raw), false},
	}
	if typ == int(crypto.Secp256k1) {
		// the point in the two other SEC1 forms the secp256k1 parser accepts
		if pk, err := secp256k1.ParsePubKey(raw); err == nil {
			un := pk.SerializeUncompressed()
			hy := append([]byte{}, un...)
			hy[0] = 0x06 | (un[64] & 1)
			out = append(out,
				Enc{"inner: secp256k1 point uncompressed (65 bytes)", CanonPB(typ, un), false},
				Enc{"inner: secp256k1 point in hybrid form (65 bytes)", CanonPB(typ, hy), false})
		}
	}
	return out
}
