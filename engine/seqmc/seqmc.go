// Package seqmc is engine E1: explicit-state breadth-first search over operation histories of a REAL
// object, checked step by step against a reference model.
//
// A state is represented by the shortest history reaching it (live Go objects cannot be cloned): a
// successor is "fresh instance, replay the history, apply one more operation". States are de-duplicated by
// a canonical key the harness builds from a white-box snapshot of the implementation AND the model state,
// so two histories are merged only when the implementation itself is in the same concrete state.
// The search is level-synchronous: each level is expanded by a pool of workers, then merged sequentially in
// frontier order, so the set of representatives, the counts and the first counterexample are deterministic.
package seqmc

import (
	"crypto/sha256"
	"fmt"
	"reflect"
	"runtime"
	"sync"
	"testing"
	"testing/synctest"
	"time"

	"github.com/libp2p/go-libp2p/x/verif/vrep"
)

// Vio is a violation found by Apply/Check: Key is the canonical class, Desc the human explanation.
type Vio struct{ Key, Desc string }

func (v *Vio) Error() string { return v.Key + ": " + v.Desc }

func Violation(key, f string, a ...any) error { return &Vio{Key: key, Desc: fmt.Sprintf(f, a...)} }

// Spec describes one closed system: implementation + reference model behind New/Apply.
type Spec[I any, O any] struct {
	Name  string
	New   func() I         // fresh implementation + fresh model
	Close func(I)          // optional: shut the instance down (called inside the bubble)
	Ops   func(I) []O      // operations enabled in this state, simplest first, deterministic order
	Apply func(I, O) error // apply to impl and model, compare observations and invariants; error = violation
	Key   func(I) string   // canonical state key (impl snapshot + model state)
	Show  func(O) string   // printable operation

	Depth     int  // maximal history length explored
	Bubble    bool // run every execution inside a testing/synctest bubble (virtual time, goroutine containment)
	T         *testing.T
	Deadline  time.Time
	MaxStates int // 0 = unlimited
	Workers   int // 0 = GOMAXPROCS
	// ExtendOnViolation: keep exploring below a violating transition (needed when known findings must not
	// mask other violations deeper in the same subtree). Default false.
	ExtendOnViolation bool
}

type CounterExample struct {
	History []string
	Key     string
	Desc    string
}

type Stats struct {
	States      int64
	Transitions int64
	MaxDepth    int
	Closed      bool // the frontier became empty: the reachable set was enumerated completely
	DepthDone   int  // deepest level whose expansion completed
	Capped      string
	Violations  []CounterExample
	NViolations int64
	kept        map[string]int // violations seen per (key, shape)
	Samples     [][]string
	PerDepth    []int64
}

type entry[O any] struct {
	hist []O
	ops  []O
}

type succ[O any] struct {
	op   O
	key  [16]byte
	ops  []O
	err  error
	dead bool
}

func hashKey(s string) (k [16]byte) {
	h := sha256.Sum256([]byte(s))
	copy(k[:], h[:16])
	return
}

func (sp *Spec[I, O]) inBubble(f func()) {
	if !sp.Bubble {
		f()
		return
	}
	synctest.Test(sp.T, func(*testing.T) { f() })
}

func (sp *Spec[I, O]) showHist(h []O, extra ...O) []string {
	var out []string
	for _, o := range append(append([]O{}, h...), extra...) {
		out = append(out, sp.Show(o))
	}
	return out
}

// Run explores to closure or to Depth.
func Run[I any, O any](sp *Spec[I, O]) *Stats {
	st := &Stats{}
	if sp.Show == nil {
		sp.Show = func(o O) string { return fmt.Sprint(o) }
	}
	workers := sp.Workers
	if workers <= 0 {
		workers = runtime.GOMAXPROCS(0)
	}
	seen := map[[16]byte]struct{}{}
	var frontier []entry[O]
	sp.inBubble(func() {
		inst := sp.New()
		seen[hashKey(sp.Key(inst))] = struct{}{}
		frontier = []entry[O]{{hist: nil, ops: sp.Ops(inst)}}
		if sp.Close != nil {
			sp.Close(inst)
		}
	})
	st.States = 1
	st.PerDepth = append(st.PerDepth, 1)
	for depth := 0; depth < sp.Depth && len(frontier) > 0; depth++ {
		var next []entry[O]
		const chunk = 4096
		aborted := false
		for base := 0; base < len(frontier) && !aborted; base += chunk {
			end := base + chunk
			if end > len(frontier) {
				end = len(frontier)
			}
			part := frontier[base:end]
			results := make([][]succ[O], len(part))
			var wg sync.WaitGroup
			idx := make(chan int, len(part))
			for i := range part {
				idx <- i
			}
			close(idx)
			for w := 0; w < workers; w++ {
				wg.Add(1)
				go func() {
					defer wg.Done()
					for i := range idx {
						if !sp.Deadline.IsZero() && time.Now().After(sp.Deadline) {
							return
						}
						results[i] = sp.expand(part[i])
					}
				}()
			}
			wg.Wait()
			if over, why := vrep.MemoryExceeded(); over {
				aborted = true
				st.Capped = fmt.Sprintf("%s at depth %d", why, depth)
				break
			}
			for i, rs := range results {
				if rs == nil && len(part[i].ops) > 0 {
					aborted = true
					st.Capped = fmt.Sprintf("deadline reached at depth %d", depth)
					break
				}
				for _, s := range rs {
					st.Transitions++
					if s.err != nil {
						st.NViolations++
						v, ok := s.err.(*Vio)
						if !ok {
							v = &Vio{Key: "error", Desc: s.err.Error()}
						}
						// kept: at most 2 per (key, shape of the description) - see vrep.Shape: a violation that
						// merely shares its key with another one must not be dropped
						cls := v.Key + "\x00" + vrep.Shape(v.Desc)
						if st.kept == nil {
							st.kept = map[string]int{}
						}
						n := st.kept[cls]
						st.kept[cls]++
						if n < 2 && len(st.Violations) < vrep.MaxKept {
							st.Violations = append(st.Violations, CounterExample{History: sp.showHist(part[i].hist, s.op), Key: v.Key, Desc: v.Desc})
						}
						if !sp.ExtendOnViolation || s.dead {
							continue
						}
					}
					if _, dup := seen[s.key]; dup {
						continue
					}
					seen[s.key] = struct{}{}
					st.States++
					h := append(append(make([]O, 0, len(part[i].hist)+1), part[i].hist...), s.op)
					if len(st.Samples) < 6 && (st.States%97 == 3 || depth == sp.Depth-1) {
						st.Samples = append(st.Samples, sp.showHist(h))
					}
					next = append(next, entry[O]{hist: h, ops: s.ops})
					if sp.MaxStates > 0 && int(st.States) >= sp.MaxStates {
						aborted = true
						st.Capped = fmt.Sprintf("state cap %d reached at depth %d", sp.MaxStates, depth)
						break
					}
				}
				if aborted {
					break
				}
			}
		}
		if aborted {
			return st
		}
		st.DepthDone = depth + 1
		st.MaxDepth = depth + 1
		st.PerDepth = append(st.PerDepth, int64(len(next)))
		frontier = next
	}
	if len(frontier) == 0 {
		st.Closed = true
		st.MaxDepth = st.DepthDone - 1
		if st.MaxDepth < 0 {
			st.MaxDepth = 0
		}
	}
	return st
}

func (sp *Spec[I, O]) expand(e entry[O]) []succ[O] {
	out := make([]succ[O], 0, len(e.ops))
	for _, op := range e.ops {
		s := succ[O]{op: op}
		sp.inBubble(func() {
			defer func() {
				if r := recover(); r != nil {
					buf := make([]byte, 4096)
					buf = buf[:runtime.Stack(buf, false)]
					s.err = &Vio{Key: "panic", Desc: fmt.Sprintf("panic: %v\n%s", r, buf)}
					s.dead = true
				}
			}()
			inst := sp.New()
			for _, h := range e.hist {
				if err := sp.Apply(inst, h); err != nil && !sp.ExtendOnViolation {
					// replaying a prefix that was clean before must stay clean: unowned nondeterminism
					s.err = &Vio{Key: "replay-divergence", Desc: "prefix replay failed: " + err.Error()}
					s.dead = true
					return
				}
			}
			s.err = sp.Apply(inst, op)
			s.key = hashKey(sp.Key(inst))
			s.ops = sp.Ops(inst)
			if sp.Close != nil {
				sp.Close(inst)
			}
		})
		out = append(out, s)
	}
	return out
}

// Fill merges the statistics of one search into a vrep result (one result may cover many searches).
func Fill(r *vrep.Result, name string, st *Stats) {
	r.States += st.States
	r.Transitions += st.Transitions
	r.Executions += st.Transitions // every transition is one execution of the real code from a fresh instance
	if st.Capped != "" {
		r.Cap("%s: %s (levels completed: %d)", name, st.Capped, st.DepthDone)
	} else if !st.Closed {
		r.Exhaustive = false
		r.Note("%s: depth bound %d reached before closure (all histories up to that length were explored)", name, st.DepthDone)
	}
	for _, s := range st.Samples {
		r.Sample(map[string]any{"search": name, "history": s})
	}
	for _, v := range st.Violations {
		if v.Key == "replay-divergence" {
			// unowned nondeterminism costs coverage, it is never an alarm
			r.Cap("%s: replay divergence at %v: %s", name, v.History, v.Desc)
			continue
		}
		r.Violate(v.Key, v.Desc, map[string]any{"search": name, "history": v.History})
	}
	if n := st.NViolations - int64(len(st.Violations)); n > 0 {
		r.Note("%s: %d further violating transitions not listed", name, n)
	}
	r.Outcome(fmt.Sprintf("%s: states=%d transitions=%d depth=%d closed=%v", name, st.States, st.Transitions, st.MaxDepth, st.Closed))
}

// ExtraFields renders every field of the struct that p points to whose name is NOT in known. Harness keys are built
// from the fields the harness author knows (often through an abstraction such as "requests mod N"); appending
// ExtraFields makes a field that a later change ADDS to the implementation part of the key automatically, so that
// two implementation states that differ only in the new field are not merged (a key that is too coarse hides bugs
// silently, one that is too fine only costs time).
func ExtraFields(p any, known ...string) string {
	v := reflect.ValueOf(p)
	for v.Kind() == reflect.Pointer || v.Kind() == reflect.Interface {
		if v.IsNil() {
			return ""
		}
		v = v.Elem()
	}
	if v.Kind() != reflect.Struct {
		return ""
	}
	skip := map[string]bool{}
	for _, k := range known {
		skip[k] = true
	}
	out := ""
	t := v.Type()
	for i := 0; i < v.NumField(); i++ {
		if skip[t.Field(i).Name] {
			continue
		}
		out += fmt.Sprintf(" %s=%v", t.Field(i).Name, v.Field(i))
	}
	return out
}
