package memconn

import (
	"bytes"
	"errors"
	"io"
	"os"
	"strings"
)

// TamperObs is what a reader saw on a stream that was edited in transit and then ended.
type TamperObs struct {
	Received          int   // bytes delivered in total (all of them verified to be the payload prefix)
	FirstErr          error // first non-nil error
	FirstErrAt        int   // bytes delivered before it
	NonEOFErr         bool  // some Read returned an error other than io.EOF
	EOF               bool  // the loop ended on io.EOF
	Errors            int
	DeliveredAfterErr int // bytes delivered after the first error (still checked against the payload)
}

// ReadTampered reads until io.EOF, or until maxAfterErr further Reads after the first error, or until
// the zero-read bound. Every returned byte is checked by ReadOnce to be the payload byte of its position.
func (t *Transfer) ReadTampered(maxAfterErr int) (TamperObs, *Problem) {
	var o TamperObs
	if t.MaxZeroReads == 0 {
		t.MaxZeroReads = 64
	}
	if t.Arm != nil {
		t.Arm()
	}
	zero, afterErr := 0, 0
	for {
		n, err, p := t.ReadOnce()
		o.Received = t.Received
		if p != nil {
			return o, p
		}
		if o.FirstErr != nil {
			o.DeliveredAfterErr += n
		}
		if err != nil {
			o.Errors++
			if o.FirstErr == nil {
				o.FirstErr, o.FirstErrAt = err, t.Received
			}
			if err == io.EOF {
				o.EOF = true
				return o, nil
			}
			o.NonEOFErr = true
		}
		if o.FirstErr != nil {
			afterErr++
			if afterErr > maxAfterErr {
				return o, nil
			}
		}
		if t.LastEmpty && err == nil {
			continue // (0, nil) is what an empty buffer gets
		}
		if n == 0 && err == nil {
			zero++
			if zero > t.MaxZeroReads {
				return o, t.fail("reader-makes-no-progress", "%d consecutive (0, nil) reads at %d of %d bytes on an ended stream", zero, t.Received, t.Accepted)
			}
		} else {
			zero = 0
		}
	}
}

// IsTruncation reports whether edited is a strict prefix of the original byte stream (bytes lost at the
// end, nothing else changed), and whether the cut falls on a frame boundary. A cut at a frame boundary is
// indistinguishable, for a channel without an authenticated end-of-stream marker, from a writer that
// stopped there; the only "error" a reader can get for it is the end of the stream itself.
func IsTruncation(orig [][]byte, edited []byte) (prefix, atBoundary bool) {
	full := Join(orig)
	if len(edited) >= len(full) || !bytes.Equal(full[:len(edited)], edited) {
		return false, false
	}
	n := 0
	for _, f := range orig {
		if n == len(edited) {
			return true, true
		}
		n += len(f)
	}
	return true, false
}

// ErrClass maps an error to a short, stable class name for outcome histograms.
func ErrClass(err error) string {
	switch {
	case err == nil:
		return "nil"
	case err == io.EOF:
		return "EOF"
	case errors.Is(err, io.ErrUnexpectedEOF):
		return "unexpected-EOF"
	case errors.Is(err, os.ErrDeadlineExceeded):
		return "timeout"
	case errors.Is(err, io.ErrClosedPipe):
		return "closed-pipe"
	}
	s := err.Error()
	for _, k := range []string{"message authentication failed", "bad record MAC", "record overflow", "unexpected message",
		"unsupported SSLv2", "oversized record", "received record with version", "first record does not look like a TLS handshake", "protocol version", "decode error", "internal error", "stream reset", "connection reset"} {
		if strings.Contains(s, k) {
			return strings.ReplaceAll(k, " ", "-")
		}
	}
	if len(s) > 40 {
		s = s[:40]
	}
	return "other:" + s
}
