package memconn

import (
	"crypto/sha256"
	"fmt"
	"hash/fnv"
	"time"

	"github.com/libp2p/go-libp2p/x/verif/vrep"
)

// Book is the per-worker bookkeeping shared by the C02 harness parts: sharding by a key, the internal
// deadline (wall clock, checked between executions only), the set of distinct cases, sampling, and the
// translation of runner results into vrep records.
type Book struct {
	R         *vrep.Result
	Buf       []byte // scratch read buffer reused across executions
	N         int    // fresh connections (bubbles) so far
	Transfers int64  // checked transfers / grid points so far (several per connection in the grids)
	deadline  time.Time
	capped    bool
	shardI    int
	shardN    int
	distinct  map[[16]byte]struct{}
}

func NewBook(r *vrep.Result) *Book {
	b := &Book{R: r, deadline: vrep.Deadline(), distinct: map[[16]byte]struct{}{}}
	b.shardI, b.shardN = vrep.Shard()
	return b
}

// Mine: is the work item with this key this worker's? Items that can produce the same distinct-case key
// must be given the same sharding key, so that the workers' distinct sets are disjoint and add up.
func (b *Book) Mine(key ...any) bool {
	h := fnv.New32a()
	fmt.Fprint(h, key...)
	return int(h.Sum32()%uint32(b.shardN)) == b.shardI
}

// Over reports (and records once) that the internal deadline has passed.
func (b *Book) Over() bool {
	if !b.capped && time.Now().After(b.deadline) {
		b.capped = true
		b.R.Cap("deadline reached after %d executions of this worker", b.N)
	}
	return b.capped
}

func (b *Book) Capped() bool { return b.capped }

// Distinct records a distinct non-trivial case; a few of them become samples.
func (b *Book) Distinct(sample any, key ...any) {
	h := sha256.Sum256([]byte(fmt.Sprint(key...)))
	var k [16]byte
	copy(k[:], h[:16])
	if _, ok := b.distinct[k]; ok {
		return
	}
	b.distinct[k] = struct{}{}
	// samples: the first worker only, one per part (its 3rd distinct case), so that the merged evidence
	// (which keeps a dozen) shows a case of every part
	if b.shardI == 0 && len(b.distinct) == 3 {
		b.R.Sample(sample)
	}
}

// Finish stores the counts: executions (= evaluations in the evidence) = checked transfers, i.e. grid points
// or tampering runs; transitions = fresh connections set up for them (each in its own bubble; in the grids
// several transfers follow one another on one connection).
func (b *Book) Finish() {
	b.R.Distinct += int64(len(b.distinct))
	b.R.Executions += b.Transfers
	b.R.Transitions += int64(b.N)
}

// Fidelity files the result of RunFidelity (one execution = one fresh Link with res.Done intact transfers);
// caseOf(i) describes item i for the replay record. Returns false when a violation was filed.
func (b *Book) Fidelity(layer string, res SeqResult, items int, caseOf func(i int) any) (ok bool) {
	b.N++
	b.Transfers += int64(res.Done)
	if res.Panic != "" || res.Infra != nil || (res.Problem != nil && res.Done < items) {
		b.Transfers++ // the transfer that failed
	}
	at := res.Done
	if at >= items {
		at = items - 1
	}
	switch {
	case res.Panic != "":
		// the code under test panicked, or everybody waits for bytes that cannot come any more
		b.R.Violate(layer+":panic-or-deadlock", fmt.Sprintf("in or after transfer #%d of the session: %s", res.Done, res.Panic), caseOf(at))
		b.R.Outcome("VIOLATION panic-or-deadlock")
	case res.Infra != nil:
		// the fault-free setup (handshake) failed: nothing can be checked, and it must not fail
		b.R.Violate(layer+":baseline-setup-failed", res.Infra.Error(), caseOf(0))
		b.R.Outcome("VIOLATION baseline-setup-failed")
	case res.Problem != nil:
		b.R.Violate(layer+":"+res.Problem.Key, fmt.Sprintf("transfer #%d of the session: %s", res.Done, res.Problem.Desc), caseOf(at))
		b.R.Outcome("VIOLATION " + res.Problem.Key)
	default:
		b.R.Outcome(layer + " session ended, reader after close: " + res.End)
		return true
	}
	return false
}

// Tamper files the result of RunTamper; returns the outcome class ("" when there is no verdict).
func (b *Book) Tamper(layer string, res TamperResult, e Edit, L int, c any) string {
	if res.Skipped {
		return ""
	}
	b.N++
	b.Transfers++
	switch {
	case res.Panic != "":
		b.R.Violate(layer+":tamper:panic-or-deadlock", res.Panic, c)
		b.R.Outcome("VIOLATION panic-or-deadlock")
		return ""
	case res.Infra != "":
		b.R.Outcome("infrastructure: " + res.Infra)
		b.R.Cap("infrastructure problem (no verdict for this run): %s at %+v", res.Infra, c)
		return ""
	}
	key, desc, class := res.Judge(e, L)
	if key != "" {
		b.R.Violate(layer+":tamper:"+key, desc, c)
		b.R.Outcome(class)
		return ""
	}
	b.R.Outcome(layer + " " + class)
	return class
}
