package memconn

import (
	"fmt"
	"io"
	"sort"
	"testing"
)

// ReadFault is one way in which the connection underneath the reader ends or breaks while bytes are still in
// flight. It is about HOW the end / the error is delivered, which the io.Reader contract leaves open: in a
// call of its own after the last segment (what a kernel socket does), or in the same Read call as the last
// segment (n > 0 together with err != nil - what buffered, message-based and QUIC-like connections do).
//
//	eof     : the writer wrote everything and closed; every byte reaches the reader's end of the connection
//	reset   : the connection breaks ("connection reset by peer") once Pos of the W bytes in flight were delivered
//	timeout : the same with an expired read deadline as the error (a net.Error with Timeout() and Temporary())
//	conn-eof: the same with io.EOF as the error: the connection UNDER a multiplexer ends while stream data is in
//	          flight (for the streams on it that is a loss of the connection, not the end of a stream)
type ReadFault struct {
	Kind     string `json:"kind"`
	WithData bool   `json:"error_in_the_same_read_call_as_the_last_segment"`
	Pos      int    `json:"after_wire_bytes,omitempty"`
	W        int    `json:"of_wire_bytes_in_flight,omitempty"`
}

func (f ReadFault) String() string {
	how := "in a Read of its own"
	if f.WithData {
		how = "together with the last segment"
	}
	if f.Kind == "eof" {
		return "eof " + how
	}
	return fmt.Sprintf("%s after %d of %d wire bytes, %s", f.Kind, f.Pos, f.W, how)
}

// Err is the error the fault injects.
func (f ReadFault) Err() error {
	switch f.Kind {
	case "timeout":
		return ErrTimeout
	case "conn-eof":
		return io.EOF
	}
	return ErrReset
}

// FaultPositions: the byte positions (1..W, number of wire bytes delivered before the connection breaks) of
// the fault grid for W bytes in flight: 1, 2, 3, W/2, W-2, W-1, W (everything arrived, the last segment
// carries the error) and the layer's marks (m > 0: m bytes from the start, m < 0: |m| bytes before the end).
func FaultPositions(W int, marks []int) []int {
	set := map[int]bool{}
	for _, p := range append([]int{1, 2, 3, W / 2, W - 2, W - 1, W}, marks...) {
		if p < 0 {
			p += W
			if p <= 0 {
				continue
			}
		}
		if p >= 1 && p <= W {
			set[p] = true
		}
	}
	var out []int
	for p := range set {
		out = append(out, p)
	}
	sort.Ints(out)
	return out
}

// Faults enumerates the fault grid for W wire bytes in flight: the end of the stream delivered both ways, and
// for every position: a reset together with the segment that ends there, a reset in a Read of its own after
// that segment (the control: what a kernel socket does), and an expired deadline together with the segment.
func Faults(W int, marks []int) []ReadFault {
	out := []ReadFault{{Kind: "eof", WithData: true}, {Kind: "eof"}}
	for _, p := range FaultPositions(W, marks) {
		out = append(out,
			ReadFault{Kind: "reset", WithData: true, Pos: p, W: W},
			ReadFault{Kind: "reset", Pos: p, W: W},
			ReadFault{Kind: "timeout", WithData: true, Pos: p, W: W})
	}
	return out
}

// FaultResult is the result of one read-fault run.
type FaultResult struct {
	Panic   string
	Infra   string
	Problem *Problem
	Obs     TamperObs
	W       int    // wire bytes in flight to the reader when the writer was done
	Wire    []byte // probe runs: those bytes
	Link    *Link
}

// RunReadFault: fresh bubble and Link; the writer performs all its writes (nothing is read meanwhile, so
// everything is in flight); then either the writer closes (eof) or a read fault is armed on the reader's raw
// end (reset / timeout at f.Pos); then the reader reads until io.EOF or for 6 more Reads after its first
// error (ReadTampered: every byte ever returned - by the Read that reports the error too - is checked against
// the payload at its position). With probe=true only the writes are done, to learn W.
func RunReadFault(t *testing.T, setup func() (*Link, error), payload []byte, writes []int, pol Policy, f ReadFault, probe bool, buf *[]byte) (res FaultResult) {
	res.Panic = Bubble(t, func() {
		l, err := setup()
		if err != nil {
			res.Infra = err.Error()
			return
		}
		res.Link = l
		defer l.Close()
		tr := l.transfer(payload, writes, false, pol, *buf)
		if res.Problem = tr.WriteAll(); res.Problem != nil {
			return
		}
		res.W = l.RRaw.Buffered()
		if probe {
			res.Wire = l.RRaw.PeekBuffered()
			return
		}
		if f.Kind == "eof" {
			l.RRaw.SetEOFWithData(f.WithData)
			if l.CloseW != nil {
				l.CloseW()
			} else {
				l.RRaw.EndIncoming()
			}
			tr.WriterClosed = true
		} else {
			if f.Pos < 1 || f.Pos > res.W {
				res.Infra = fmt.Sprintf("fault position %d outside the %d bytes in flight", f.Pos, res.W)
				return
			}
			l.RRaw.FailReadAfter(int64(f.Pos), f.Err(), f.WithData)
		}
		res.Obs, res.Problem = tr.ReadTampered(6)
		*buf = tr.Buf
	})
	return res
}

// Judge applies the oracle to a completed read-fault run (no Panic / Infra):
//
//	(a) every byte ever returned is the byte the writer sent at that position, and never more than was written
//	    (res.Problem, from ReadOnce) - for all kinds, for the Read that returns the error and for every Read
//	    after it;
//	(b) eof: the reader received ALL bytes before / with its first error (all of them reached its end of the
//	    connection, in order, before the end of the stream);
//	(c) reset / timeout: nothing beyond (a) is asked - a broken connection may lose what was in flight, and a
//	    layer may give up on bytes it had already buffered.
func (res *FaultResult) Judge(f ReadFault, L int) (key, desc, class string) {
	if res.Problem != nil {
		return f.Kind + ":" + res.Problem.Key, f.String() + ": " + res.Problem.Desc, "VIOLATION " + res.Problem.Key
	}
	o := res.Obs
	how := "separately"
	if f.WithData {
		how = "with the last segment"
	}
	got := "a strict prefix"
	switch {
	case o.Received == L:
		got = "everything"
	case o.Received == 0:
		got = "nothing"
	}
	class = fmt.Sprintf("%s %s -> reader got %s, first error %s", f.Kind, how, got, ErrClass(o.FirstErr))
	if o.DeliveredAfterErr > 0 {
		class += ", correct data delivered after it"
	}
	if f.Kind == "eof" && o.Received != L {
		return "eof:stream-ended-before-all-bytes-were-delivered", fmt.Sprintf("%s: the reader got %d of %d bytes, first error %v after %d bytes; the writer had written all of them and then closed, and the connection underneath delivered every byte before its end", f, o.Received, L, o.FirstErr, o.FirstErrAt), "VIOLATION stream-ended-before-all-bytes-were-delivered"
	}
	return "", "", class
}

// ReadFault files the result of RunReadFault; returns the outcome class ("" when there is no verdict).
func (b *Book) ReadFault(layer string, res FaultResult, f ReadFault, L int, c any) string {
	b.N++
	b.Transfers++
	switch {
	case res.Panic != "":
		b.R.Violate(layer+":readfault:panic-or-deadlock", f.String()+": "+res.Panic, c)
		b.R.Outcome("VIOLATION panic-or-deadlock")
		return ""
	case res.Infra != "":
		b.R.Outcome("infrastructure: " + res.Infra)
		b.R.Cap("infrastructure problem (no verdict for this run): %s at %+v", res.Infra, c)
		return ""
	}
	key, desc, class := res.Judge(f, L)
	if key != "" {
		b.R.Violate(layer+":readfault:"+key, desc, c)
		b.R.Outcome(class)
		return ""
	}
	b.R.Outcome(layer + " " + class)
	return class
}
