package memconn

import (
	"encoding/binary"
	"fmt"
)

// FrameKind says how a captured byte stream is cut into frames.
type FrameKind int

const (
	// FrameNoise: 2-byte big-endian length prefix followed by that many bytes (libp2p Noise transport message).
	FrameNoise FrameKind = iota
	// FrameTLS: TLS record = 5-byte header (type, version[2], length[2]) followed by length bytes.
	FrameTLS
)

func (k FrameKind) HeaderLen() int {
	if k == FrameTLS {
		return 5
	}
	return 2
}

// SplitFrames cuts wire into complete frames (each including its header); rest is a trailing incomplete frame.
func SplitFrames(kind FrameKind, wire []byte) (frames [][]byte, rest []byte) {
	h := kind.HeaderLen()
	for len(wire) >= h {
		n := int(binary.BigEndian.Uint16(wire[h-2 : h]))
		if len(wire) < h+n {
			break
		}
		frames = append(frames, wire[:h+n:h+n])
		wire = wire[h+n:]
	}
	return frames, wire
}

// Join concatenates frames into a fresh slice.
func Join(frames [][]byte) []byte {
	n := 0
	for _, f := range frames {
		n += len(f)
	}
	out := make([]byte, 0, n)
	for _, f := range frames {
		out = append(out, f...)
	}
	return out
}

// Edit is one man-in-the-middle edit of a captured frame sequence.
//
//	flip : frame Frame, byte Off XOR Mask                         ("altered")
//	drop : frame Frame removed                                    ("truncated" when last, otherwise a gap)
//	dup  : frame Frame delivered twice in a row                   ("duplicated")
//	swap : frames Frame and Frame+1 exchanged                     ("reordered")
//	trunc: frame Frame cut to its first Off bytes, later frames follow   (bytes removed in transit)
//	cut  : the stream ends after the first Off bytes of frame Frame      (truncated, then EOF)
type Edit struct {
	Kind  string `json:"kind"`
	Frame int    `json:"frame"`
	Off   int    `json:"off,omitempty"`
	Mask  byte   `json:"mask,omitempty"`
}

func (e Edit) String() string {
	switch e.Kind {
	case "flip":
		return fmt.Sprintf("flip(frame=%d,off=%d,mask=%#02x)", e.Frame, e.Off, e.Mask)
	case "trunc", "cut":
		return fmt.Sprintf("%s(frame=%d,keep=%d)", e.Kind, e.Frame, e.Off)
	}
	return fmt.Sprintf("%s(frame=%d)", e.Kind, e.Frame)
}

// Apply returns the edited byte stream (frames are not modified) and whether the edit changed anything.
func (e Edit) Apply(frames [][]byte) (wire []byte, changed bool) {
	if e.Frame < 0 || e.Frame >= len(frames) {
		return Join(frames), false
	}
	out := make([][]byte, 0, len(frames)+1)
	switch e.Kind {
	case "flip":
		if e.Off < 0 || e.Off >= len(frames[e.Frame]) || e.Mask == 0 {
			return Join(frames), false
		}
		out = append(out, frames...)
		f := append([]byte(nil), frames[e.Frame]...)
		f[e.Off] ^= e.Mask
		out[e.Frame] = f
	case "drop":
		out = append(out, frames[:e.Frame]...)
		out = append(out, frames[e.Frame+1:]...)
	case "dup":
		out = append(out, frames[:e.Frame+1]...)
		out = append(out, frames[e.Frame])
		out = append(out, frames[e.Frame+1:]...)
	case "swap":
		if e.Frame+1 >= len(frames) {
			return Join(frames), false
		}
		out = append(out, frames...)
		out[e.Frame], out[e.Frame+1] = frames[e.Frame+1], frames[e.Frame]
		if string(out[e.Frame]) == string(out[e.Frame+1]) {
			return Join(frames), false
		}
	case "trunc":
		if e.Off < 0 || e.Off >= len(frames[e.Frame]) {
			return Join(frames), false
		}
		out = append(out, frames[:e.Frame]...)
		out = append(out, frames[e.Frame][:e.Off])
		out = append(out, frames[e.Frame+1:]...)
	case "cut":
		if e.Off < 0 || e.Off > len(frames[e.Frame]) || (e.Off == len(frames[e.Frame]) && e.Frame == len(frames)-1) {
			return Join(frames), false
		}
		out = append(out, frames[:e.Frame]...)
		out = append(out, frames[e.Frame][:e.Off])
	default:
		return Join(frames), false
	}
	return Join(out), true
}
