package memconn

import (
	"fmt"
	"io"
	"runtime/debug"
	"strings"
	"testing"
	"testing/synctest"
	"time"
)

// Link is one direction of a layered connection under test, as the generic runners need it.
type Link struct {
	W      io.Writer    // the writing end of the layer under test
	R      io.Reader    // the reading end
	RRaw   *Conn        // the in-memory end underneath the reader (stall deadline, capture, inject)
	CloseW func() error // ends the stream from the writer's side
	Close  func()       // releases everything
	// Pending, when set, gives the size the pending-relative read policies refer to (e.g. the plaintext
	// size of the next frame, or the queued remainder); default: accepted - received.
	Pending func() int
	// optional probes around every Read of the reader
	Before func(r int)
	After  func(r, n int, err error)
	// Extra is for the harness (e.g. its white-box tracker).
	Extra any
	// Alt, when set, is the opposite direction over the same connection (items with Reverse use it).
	Alt *Link
}

// Policy chooses the read-buffer size: fixed D, or pending + D. Zeros, when set, additionally interleaves
// ZERO-LENGTH Reads (len(buf) == 0, which "every sequence of read-buffer sizes" contains): before the i-th
// non-empty Read of a transfer the reader issues Zeros[i mod len(Zeros)] Reads with an empty buffer. Such a
// Read must return n = 0 and must not consume, drop or reorder anything: the bytes returned by the Reads
// that follow are judged exactly as without it.
type Policy struct {
	Name  string
	Rel   bool
	D     int
	Zeros []int
}

func Fixed(d int) Policy { return Policy{Name: fmt.Sprintf("r=%d", d), D: d} }
func Rel(d int) Policy {
	if d == 0 {
		return Policy{Name: "r=pending", Rel: true}
	}
	return Policy{Name: fmt.Sprintf("r=pending%+d", d), Rel: true, D: d}
}

// WithZeros returns the policy with zero-length Reads interleaved following the cyclic pattern z.
func (p Policy) WithZeros(z ...int) Policy {
	p.Zeros = append([]int(nil), z...)
	p.Name += ",zero-length reads" + strings.ReplaceAll(fmt.Sprint(z), " ", ",")
	return p
}

func (p Policy) Size(pending int) int {
	if p.Rel {
		return pending + p.D
	}
	return p.D
}

// Policies builds a de-duplicated list: the fixed sizes (>= 1) followed by the pending-relative offsets.
func Policies(fixed []int, rel []int) []Policy {
	var out []Policy
	seen := map[int]bool{}
	for _, f := range fixed {
		if f >= 1 && !seen[f] {
			seen[f] = true
			out = append(out, Fixed(f))
		}
	}
	for _, d := range rel {
		out = append(out, Rel(d))
	}
	return out
}

// Bubble runs f in a fresh synctest bubble (virtual clock, no goroutine may be left behind). A panic is
// returned as text: of f itself (the harness calls the code under test from the bubble's root goroutine, so a
// panicking Read or Write lands here - those bytes are not delivered - instead of killing the worker), or of
// the bubble (everything is blocked for good, or goroutines are left when f returns).
func Bubble(t *testing.T, f func()) (panicked string) {
	defer func() {
		if e := recover(); e != nil {
			panicked = fmt.Sprint(e)
		}
	}()
	synctest.Test(t, func(*testing.T) {
		defer func() {
			if e := recover(); e != nil {
				st := string(debug.Stack())
				if i := strings.Index(st, "panic("); i >= 0 {
					st = st[i:]
				}
				if len(st) > 1200 {
					st = st[:1200]
				}
				panicked = fmt.Sprintf("panic in the bubble's root goroutine: %v\n%s", e, st)
			}
		}()
		f()
	})
	return panicked
}

// Transfer prepares a checked transfer over this link.
func (l *Link) Transfer(payload []byte, writes []int, each bool, pol Policy, buf []byte) *Transfer {
	return l.transfer(payload, writes, each, pol, buf)
}

func (l *Link) transfer(payload []byte, writes []int, each bool, pol Policy, buf []byte) *Transfer {
	tr := &Transfer{W: l.W, R: l.R, Payload: payload, Writes: writes, DrainEach: each, Buf: buf, Before: l.Before, After: l.After, Zeros: pol.Zeros}
	tr.ReadSize = func(received, accepted int) int {
		if l.Pending != nil {
			return pol.Size(l.Pending())
		}
		return pol.Size(accepted - received)
	}
	if l.RRaw != nil {
		// a reader waiting for bytes that will never come gets a timeout after a virtual hour
		tr.Arm = func() { l.RRaw.SetReadDeadline(time.Now().Add(time.Hour)) }
	}
	return tr
}

// Item is one checked transfer of a sequence run over the same fresh Link.
type Item struct {
	Payload []byte
	Writes  []int
	Each    bool // read after each write (else after the last)
	Pol     Policy
	Reverse bool // run over Link.Alt (the opposite direction of the same connection)
	// CloseEarly (last item only): the writer closes BEFORE the reader reads what the last Write sent
	// (Transfer.RunClosing), so the end of the stream travels behind the data and - with SetEOFWithData on the
	// reader's raw end - arrives in the same Read call as the last segment.
	CloseEarly bool
}

// SeqResult is the result of one execution: a fresh Link and a sequence of fault-free transfers over it.
type SeqResult struct {
	Panic   string   // the bubble panicked / deadlocked
	Infra   error    // setup failed (no verdict)
	Done    int      // items completed without a Problem
	Problem *Problem // violated expectation in item number Done
	End     string   // what the reader saw after the writer closed: "eof", "error", "zero-reads"
	Link    *Link
}

// RunFidelity: fresh bubble, fresh Link, then every item in turn (Transfer.Run; after is called when an
// item completed intact), then the writer closes and the reader must not get another byte. The items share
// the connection, so the layer's state (nonces, queued remainders, key stream position) carries over from
// one transfer to the next, as on a long-lived connection. Stops at the first Problem.
func RunFidelity(t *testing.T, setup func() (*Link, error), items []Item, buf *[]byte, after func(i int, tr *Transfer, l *Link)) (res SeqResult) {
	res.Panic = Bubble(t, func() {
		l, err := setup()
		if err != nil {
			res.Infra = err
			return
		}
		res.Link = l
		defer l.Close()
		var tr *Transfer
		for i, it := range items {
			ll := l
			if it.Reverse && l.Alt != nil {
				ll = l.Alt
			}
			tr = ll.transfer(it.Payload, it.Writes, it.Each, it.Pol, *buf)
			if it.CloseEarly && i == len(items)-1 && ll.CloseW != nil {
				res.End, res.Problem = tr.RunClosing(ll.CloseW)
				*buf = tr.Buf
				if res.Problem == nil {
					res.Done = i + 1
					if after != nil {
						after(i, tr, l)
					}
				}
				return
			}
			res.Problem = tr.Run()
			*buf = tr.Buf
			if res.Problem != nil {
				return
			}
			res.Done = i + 1
			if after != nil {
				after(i, tr, l)
			}
		}
		if tr != nil && l.CloseW != nil {
			l.CloseW()
			res.End, res.Problem = tr.AfterClose(4)
		}
	})
	return res
}

// TamperResult is the result of one capture / edit / replay run.
type TamperResult struct {
	Panic      string
	Infra      string // capture did not look as expected (no verdict)
	Problem    *Problem
	Obs        TamperObs
	Frames     [][]byte // captured frames (before the edit)
	Changed    bool     // the edit changed the byte stream
	Truncation bool     // the edited stream is a strict prefix of the original
	AtBoundary bool     // ... cut at a frame boundary
	Skipped    bool     // the edit does not apply to this capture
	Link       *Link
}

// RunTamper: fresh bubble and Link; the reader's raw end captures what the writer sends for all writes;
// cut(held writes) turns the capture into frames (and may veto with a reason); the edit is applied; the
// edited bytes are injected followed by the end of the stream; the reader reads (ReadTampered).
// With probe=true only the capture is done (to learn the frame sizes).
func RunTamper(t *testing.T, setup func() (*Link, error), payload []byte, writes []int, pol Policy,
	cut func(l *Link, held [][]byte) (frames [][]byte, veto string), e Edit, probe bool, buf *[]byte) (res TamperResult) {
	res.Panic = Bubble(t, func() {
		l, err := setup()
		if err != nil {
			res.Infra = err.Error()
			return
		}
		res.Link = l
		defer l.Close()
		l.RRaw.HoldIncoming(true)
		tr := l.transfer(payload, writes, false, pol, *buf)
		if res.Problem = tr.WriteAll(); res.Problem != nil {
			return
		}
		frames, veto := cut(l, l.RRaw.Held())
		if veto != "" {
			res.Infra = veto
			return
		}
		res.Frames = frames
		if probe {
			return
		}
		var wire []byte
		wire, res.Changed = e.Apply(frames)
		if e.Kind != "none" && !res.Changed {
			res.Skipped = true
			return
		}
		if res.Changed {
			res.Truncation, res.AtBoundary = IsTruncation(frames, wire)
		}
		l.RRaw.HoldIncoming(false)
		l.RRaw.Inject(wire)
		l.RRaw.EndIncoming()
		res.Obs, res.Problem = tr.ReadTampered(6)
		*buf = tr.Buf
	})
	return res
}

// Judge applies the tampering oracle to a completed run (no Panic / Infra / Skipped). It returns a
// violation key ("" = none) with a description, and the outcome class of the run.
//
//	(a) every byte ever returned is the byte the writer sent at that position: res.Problem (from ReadOnce);
//	(b) the reader gets an error: a non-nil error other than io.EOF, unless the edit is a pure truncation
//	    (the end of the stream - io.EOF or io.ErrUnexpectedEOF - is then the error);
//	    the unedited replay must deliver everything and end with io.EOF (else the harness is vacuous).
func (res *TamperResult) Judge(e Edit, L int) (key, desc, class string) {
	if res.Problem != nil {
		return e.Kind + ":" + res.Problem.Key, res.Problem.Desc, "VIOLATION " + res.Problem.Key
	}
	o := res.Obs
	class = fmt.Sprintf("%s -> first error %s", e.Kind, ErrClass(o.FirstErr))
	if o.DeliveredAfterErr > 0 {
		class += ", correct data delivered after it"
	}
	switch {
	case !res.Changed:
		if o.Received != L || o.NonEOFErr || !o.EOF {
			return "baseline-not-delivered", fmt.Sprintf("unedited capture/replay delivered %d of %d bytes, first error %v", o.Received, L, o.FirstErr), "VIOLATION baseline"
		}
	case res.Truncation:
		if res.AtBoundary {
			class += " (stream cut at a frame boundary)"
		} else {
			class += " (stream cut inside a frame)"
		}
		if o.FirstErr == nil {
			return e.Kind + ":edit-not-reported", fmt.Sprintf("%s: reader got %d of %d bytes and no error at all", e, o.Received, L), "VIOLATION edit-not-reported"
		}
	default:
		if !o.NonEOFErr {
			return e.Kind + ":edit-not-reported", fmt.Sprintf("%s: reader got %d of %d bytes and no error except %v", e, o.Received, L, o.FirstErr), "VIOLATION edit-not-reported"
		}
	}
	return "", "", class
}

// Edits enumerates the single edits for a captured frame sequence (hdr = frame header length):
// per frame XOR 0x01 and 0x80 at every byte of frames <= 64+hdr bytes, or at the first and last 48 bytes
// of larger frames (dense: also every 4099th byte in between); drop; duplicate; swap with the next frame;
// truncate to k bytes with the rest following, and cut the stream after k bytes, for every k (small frames)
// or k in {0,1,2,3,hdr+15,hdr+16,hdr+17,len-17,len-16,len-1,len}. The first element is the identity.
func Edits(frames [][]byte, hdr int, dense bool) []Edit {
	out := []Edit{{Kind: "none"}}
	for i, f := range frames {
		small := len(f) <= 64+hdr
		var pos []int
		if small {
			for p := range f {
				pos = append(pos, p)
			}
		} else {
			for p := 0; p < 48; p++ {
				pos = append(pos, p)
			}
			if dense {
				for p := 48; p < len(f)-48; p += 4099 {
					pos = append(pos, p)
				}
			}
			for p := len(f) - 48; p < len(f); p++ {
				pos = append(pos, p)
			}
		}
		for _, p := range pos {
			out = append(out, Edit{Kind: "flip", Frame: i, Off: p, Mask: 0x01}, Edit{Kind: "flip", Frame: i, Off: p, Mask: 0x80})
		}
		out = append(out, Edit{Kind: "drop", Frame: i}, Edit{Kind: "dup", Frame: i})
		if i+1 < len(frames) {
			out = append(out, Edit{Kind: "swap", Frame: i})
		}
		var keeps []int
		if small {
			for k := 0; k <= len(f); k++ {
				keeps = append(keeps, k)
			}
		} else {
			keeps = []int{0, 1, 2, 3, hdr + 15, hdr + 16, hdr + 17, len(f) - 17, len(f) - 16, len(f) - 1, len(f)}
		}
		for _, k := range keeps {
			if k > 0 && k < len(f) { // k = 0 is "drop"
				out = append(out, Edit{Kind: "trunc", Frame: i, Off: k})
			}
			if k > 0 || i == 0 { // cutting before frame i>0 = cutting after all of frame i-1
				out = append(out, Edit{Kind: "cut", Frame: i, Off: k})
			}
		}
	}
	return out
}
