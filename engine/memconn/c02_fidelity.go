package memconn

import (
	"bytes"
	"encoding/binary"
	"fmt"
	"io"
)

// ---- position-dependent payload ----

func mix64(x uint64) uint64 {
	x += 0x9e3779b97f4a7c15
	x = (x ^ (x >> 30)) * 0xbf58476d1ce4e5b9
	x = (x ^ (x >> 27)) * 0x94d049bb133111eb
	return x ^ (x >> 31)
}

// Pattern returns n bytes whose value at offset i is a keyed function of (seed, i): 8-byte blocks
// mix64(seed + block index). Any reordering, duplication, omission or substitution of a byte range shows up
// as a mismatch at the first affected position.
func Pattern(seed uint64, n int) []byte {
	out := make([]byte, (n+7)/8*8)
	for b := 0; b*8 < n; b++ {
		binary.BigEndian.PutUint64(out[b*8:], mix64(seed*0x100000001b3+uint64(b)))
	}
	return out[:n]
}

// ---- write splits ----

// Split is one way of cutting a payload of length L into Write calls.
type Split struct {
	Name  string
	Sizes []int
}

// Splits returns the write splits of the C02 grid for a payload of length L, duplicates removed:
// [L], [1,L-1], [L-1,1], [cut,rest] for every cut in cuts, three equal parts, [0,L,0], three equal parts with
// ZERO-LENGTH writes between them ([a,0,a,0,0,rest]: "every sequence of write sizes" contains empty writes,
// at the start, at the end and between two non-empty writes), and 1-byte writes when L <= oneByteMax.
func Splits(L int, cuts []int, oneByteMax int) []Split {
	var out []Split
	seen := map[string]bool{}
	add := func(name string, sizes ...int) {
		sum := 0
		for _, s := range sizes {
			if s < 0 {
				return
			}
			sum += s
		}
		if sum != L {
			return
		}
		k := fmt.Sprint(sizes)
		if seen[k] {
			return
		}
		seen[k] = true
		out = append(out, Split{Name: name, Sizes: sizes})
	}
	add("whole", L)
	if L >= 2 {
		add("1+rest", 1, L-1)
		add("rest+1", L-1, 1)
	}
	for _, c := range cuts {
		if L > c {
			add(fmt.Sprintf("%d+rest", c), c, L-c)
		}
	}
	if L >= 3 {
		a := L / 3
		add("thirds", a, a, L-2*a)
	}
	if L >= 1 {
		add("0+L+0", 0, L, 0)
	}
	if L >= 3 {
		a := L / 3
		add("thirds+0s", a, 0, a, 0, 0, L-2*a)
	}
	if L >= 2 && L <= oneByteMax {
		s := make([]int, L)
		for i := range s {
			s[i] = 1
		}
		k := fmt.Sprintf("1x%d", L)
		if !seen[k] {
			seen[k] = true
			out = append(out, Split{Name: "bytes", Sizes: s})
		}
	}
	return out
}

// ---- one transfer, checked ----

// Problem is a violated expectation of one transfer.
type Problem struct {
	Key  string // canonical class
	Desc string
}

func (p *Problem) Error() string { return p.Key + ": " + p.Desc }

// Transfer pushes Payload through W in the given Writes and pulls it out of R, from ONE goroutine (the
// connection underneath must buffer without bound, as memconn does), checking after every Read that what
// has been received so far is exactly the prefix of what Write has accepted so far.
type Transfer struct {
	W       io.Writer
	R       io.Reader
	Payload []byte
	Writes  []int
	// DrainEach: read everything accepted so far after every Write (otherwise after the last Write).
	DrainEach bool
	// ReadSize chooses the buffer length of the next non-empty Read (values < 1 are raised to 1).
	ReadSize func(received, accepted int) int
	// Zeros: cyclic pattern of zero-length Reads (Policy.Zeros): before the i-th non-empty Read,
	// Zeros[i mod len(Zeros)] Reads with len(buf) == 0 are issued (they go through ReadOnce like any other).
	Zeros []int
	// Before / After are optional probes around every Read (white-box path classification).
	Before func(r int)
	After  func(r, n int, err error)
	// Arm is called before each read phase: the harness arms a (virtual) read deadline so that a reader
	// waiting for bytes that will never come returns an error instead of blocking.
	Arm func()
	// Buf is scratch of at least the largest read size (allocated when too small).
	Buf []byte
	// MaxZeroReads bounds consecutive (0, nil) reads (default 64).
	MaxZeroReads int
	// WriterClosed: the writing side has ended the stream after its last Write. The Read that completes the
	// payload may then carry the end of the stream (n > 0 together with io.EOF, as io.Reader allows): Drain
	// accepts an error from exactly that Read (kept in EndErr) instead of calling it an error on a healthy
	// connection.
	WriterClosed bool
	EndErr       error

	// results
	Received      int
	Accepted      int
	Reads         int
	ZeroReads     int
	EmptyReads    int  // Reads issued with len(buf) == 0
	LastEmpty     bool // the last ReadOnce used an empty buffer
	InputModified bool // a Write changed the slice it was given (io.Writer contract; reported, not judged)
	wscratch      []byte
	zeros         zeroSeq
}

// zeroSeq walks a cyclic pattern of zero-length reads: next() says whether the next Read has to be issued
// with an empty buffer.
type zeroSeq struct {
	i     int // non-empty reads started so far
	left  int // empty reads still to be issued before the next non-empty one
	armed bool
}

func (z *zeroSeq) next(pattern []int) bool {
	if len(pattern) == 0 {
		return false
	}
	if !z.armed {
		z.left = pattern[z.i%len(pattern)]
		z.i++
		z.armed = true
	}
	if z.left > 0 {
		z.left--
		return true
	}
	z.armed = false
	return false
}

func (t *Transfer) fail(key, f string, a ...any) *Problem {
	return &Problem{Key: key, Desc: fmt.Sprintf(f, a...)}
}

// Run performs the writes and reads. It does not close anything.
func (t *Transfer) Run() *Problem {
	for wi := range t.Writes {
		if p := t.WriteOne(wi); p != nil {
			return p
		}
		if t.DrainEach {
			if p := t.Drain(); p != nil {
				return p
			}
		}
	}
	return t.Drain()
}

// WriteAll performs only the writes (the wire-editing harnesses capture them, edit, then read).
func (t *Transfer) WriteAll() *Problem {
	for wi := range t.Writes {
		if p := t.WriteOne(wi); p != nil {
			return p
		}
	}
	return nil
}

// WriteOne performs write number wi of Writes and checks its result.
func (t *Transfer) WriteOne(wi int) *Problem {
	w := t.Writes[wi]
	src := t.Payload[t.Accepted : t.Accepted+w]
	if cap(t.wscratch) < w {
		t.wscratch = make([]byte, w)
	}
	in := t.wscratch[:w]
	copy(in, src)
	n, err := t.W.Write(in)
	if !bytes.Equal(in, src) {
		t.InputModified = true
	}
	if n < 0 || n > w {
		return t.fail("write-count-out-of-range", "Write #%d of %d bytes returned n=%d", wi, w, n)
	}
	t.Accepted += n
	if err != nil {
		// the connection underneath is healthy: a failing Write means these bytes cannot be delivered
		return t.fail("write-failed-on-healthy-conn", "Write #%d of %d bytes at offset %d returned n=%d err=%v", wi, w, t.Accepted-n, n, err)
	}
	if n != w {
		return t.fail("short-write-without-error", "Write #%d of %d bytes returned n=%d, err=nil", wi, w, n)
	}
	return nil
}

// Drain reads until everything accepted so far has been received.
func (t *Transfer) Drain() *Problem {
	if t.MaxZeroReads == 0 {
		t.MaxZeroReads = 64
	}
	if t.Arm != nil {
		t.Arm()
	}
	zero := 0
	for t.Received < t.Accepted {
		n, err, p := t.ReadOnce()
		if p != nil {
			return p
		}
		if err != nil {
			if t.WriterClosed && t.Received == t.Accepted {
				t.EndErr = err // the last bytes came together with the end of the stream
				return nil
			}
			return t.fail("read-error-on-healthy-conn", "Read returned %v after %d of %d accepted bytes (n=%d)", err, t.Received, t.Accepted, n)
		}
		if t.LastEmpty {
			continue // (0, nil) is what an empty buffer gets; it neither is nor resets "no progress"
		}
		if n == 0 {
			zero++
			if zero > t.MaxZeroReads {
				return t.fail("reader-makes-no-progress", "%d consecutive (0, nil) reads with a non-empty buffer at %d of %d accepted bytes", zero, t.Received, t.Accepted)
			}
		} else {
			zero = 0
		}
	}
	return nil
}

// RunClosing is Run for the LAST transfer of a connection: the writer ends the stream (closeW) BEFORE the
// reader has read what the last Write sent (everything, unless DrainEach), so the end of the stream is in
// flight behind the data - and, when the connection underneath delivers that way, arrives in the same Read
// call as the last segment. The reader then reads to the end (DrainToEnd).
func (t *Transfer) RunClosing(closeW func() error) (end string, p *Problem) {
	for wi := range t.Writes {
		if p := t.WriteOne(wi); p != nil {
			return "", p
		}
		if t.DrainEach && wi < len(t.Writes)-1 {
			if p := t.Drain(); p != nil {
				return "", p
			}
		}
	}
	closeW()
	t.WriterClosed = true
	return t.DrainToEnd(4)
}

// DrainToEnd reads until the first error on a stream that the writer ended after its last Write over a
// connection that delivered every byte: the bytes of EVERY Read - the one that returns the error included -
// must be the payload at that position (ReadOnce), the error must not come before all accepted bytes were
// received (they all reached this end of the connection; a layer that drops the bytes that arrived in the
// same call as the end of the stream loses them), and up to maxAfter further Reads must not return a byte.
// Returns how the stream ended: "eof[+data]" / "error[+data]" (+data: the error came with the last bytes).
func (t *Transfer) DrainToEnd(maxAfter int) (string, *Problem) {
	if t.MaxZeroReads == 0 {
		t.MaxZeroReads = 64
	}
	if t.Arm != nil {
		t.Arm()
	}
	zero := 0
	for {
		n, err, p := t.ReadOnce()
		if p != nil {
			return "", p
		}
		if err != nil {
			if t.Received < t.Accepted {
				return "", t.fail("stream-ended-before-all-bytes-were-delivered", "Read returned n=%d err=%v at %d of %d bytes; the writer had written all of them and then closed, and the connection underneath delivered every byte before its end", n, err, t.Received, t.Accepted)
			}
			t.EndErr = err
			end := "error"
			if err == io.EOF {
				end = "eof"
			}
			if n > 0 {
				end += "+data"
			}
			for i := 0; i < maxAfter; i++ {
				if _, _, p := t.ReadOnce(); p != nil { // any further byte is "received-more-than-written"
					return "", p
				}
			}
			return end, nil
		}
		if t.LastEmpty {
			continue
		}
		if n == 0 {
			zero++
			if zero > t.MaxZeroReads {
				return "", t.fail("reader-makes-no-progress", "%d consecutive (0, nil) reads with a non-empty buffer at %d of %d bytes of an ended stream", zero, t.Received, t.Accepted)
			}
		} else {
			zero = 0
		}
	}
}

// ReadOnce does one Read with the policy's buffer size (or with an empty buffer when the policy's pattern of
// zero-length reads says so) and checks the bytes against the payload at the current position. The returned
// error is the Read's own error (not judged here).
func (t *Transfer) ReadOnce() (int, error, *Problem) {
	r := 1
	if t.LastEmpty = t.zeros.next(t.Zeros); t.LastEmpty {
		r = 0
		t.EmptyReads++
	} else {
		if t.ReadSize != nil {
			r = t.ReadSize(t.Received, t.Accepted)
		}
		if r < 1 {
			r = 1
		}
	}
	if len(t.Buf) < r {
		t.Buf = make([]byte, r)
	}
	buf := t.Buf[:r:r] // cap == len: a reader that writes beyond len(p) panics instead of going unnoticed
	if t.Before != nil {
		t.Before(r)
	}
	n, err := t.R.Read(buf)
	if t.After != nil {
		t.After(r, n, err)
	}
	t.Reads++
	if n == 0 && r > 0 {
		t.ZeroReads++
	}
	if n < 0 || n > r {
		return n, err, t.fail("read-count-out-of-range", "Read(len %d) returned n=%d", r, n)
	}
	if t.Received+n > t.Accepted {
		return n, err, t.fail("received-more-than-written", "Read returned %d bytes at offset %d but only %d bytes were accepted by Write", n, t.Received, t.Accepted)
	}
	if want := t.Payload[t.Received : t.Received+n]; !bytes.Equal(buf[:n], want) {
		i := 0
		for i < n && buf[i] == want[i] {
			i++
		}
		return n, err, t.fail("received-bytes-differ", "Read(len %d)=%d at offset %d: first differing byte at stream offset %d (got %#02x want %#02x)%s",
			r, n, t.Received, t.Received+i, buf[i], want[i], whereFrom(t.Payload, buf[i:n]))
	}
	t.Received += n
	return n, err, nil
}

// whereFrom says whether the unexpected bytes occur elsewhere in the payload (reorder / duplication) or
// nowhere (corruption).
func whereFrom(payload, got []byte) string {
	if len(got) > 16 {
		got = got[:16]
	}
	if len(got) < 8 {
		return ""
	}
	if j := bytes.Index(payload, got); j >= 0 {
		return fmt.Sprintf("; these bytes are the payload at offset %d (reordered or duplicated)", j)
	}
	return "; these bytes occur nowhere in the payload (corrupted)"
}

// AfterClose reads up to maxReads times after the writer closed and all accepted bytes were received;
// any further data byte is a Problem. Returns the class of what the reader saw ("eof", "error:<...>",
// "zero-reads").
func (t *Transfer) AfterClose(maxReads int) (string, *Problem) {
	if t.Arm != nil {
		t.Arm()
	}
	for i := 0; i < maxReads; i++ {
		n, err, p := t.ReadOnce()
		if p != nil {
			return "", p
		}
		if n > 0 {
			return "", t.fail("received-more-than-written", "Read returned %d more bytes after the complete payload", n)
		}
		if err == io.EOF {
			return "eof", nil
		}
		if err != nil {
			return "error", nil
		}
	}
	return "zero-reads", nil
}

// ---- concurrent transfer ----

// Concurrent is a transfer whose writer runs in its own goroutine while the caller's goroutine reads: for
// layers with flow control (a stream multiplexer's window), where a large write cannot complete before the
// reader reads. The reader knows the payload and reads until all of it arrived or Read fails.
type Concurrent struct {
	W        io.Writer
	R        io.Reader
	Payload  []byte
	Writes   []int
	ReadSize func(received int) int
	Zeros    []int  // cyclic pattern of zero-length Reads, as in Transfer
	Arm      func() // arms the reader's stall deadline (called once before reading)
	AfterW   func() // called by the writer goroutine after its last write (e.g. CloseWrite)
	Buf      []byte

	Received int
	Reads    int
}

// Run starts the writer, reads everything, joins the writer. done is closed when the writer finished.
func (c *Concurrent) Run() *Problem {
	type wres struct {
		p *Problem
	}
	ch := make(chan wres, 1)
	go func() {
		off := 0
		for wi, w := range c.Writes {
			in := append([]byte(nil), c.Payload[off:off+w]...)
			n, err := c.W.Write(in)
			if n < 0 || n > w {
				ch <- wres{&Problem{Key: "write-count-out-of-range", Desc: fmt.Sprintf("Write #%d of %d bytes returned n=%d", wi, w, n)}}
				return
			}
			if err != nil {
				ch <- wres{&Problem{Key: "write-failed-on-healthy-conn", Desc: fmt.Sprintf("Write #%d of %d bytes at offset %d returned n=%d err=%v", wi, w, off, n, err)}}
				return
			}
			if n != w {
				ch <- wres{&Problem{Key: "short-write-without-error", Desc: fmt.Sprintf("Write #%d of %d bytes returned n=%d, err=nil", wi, w, n)}}
				return
			}
			off += n
		}
		if c.AfterW != nil {
			c.AfterW()
		}
		ch <- wres{nil}
	}()
	var rp *Problem
	if c.Arm != nil {
		c.Arm()
	}
	zero := 0
	var zs zeroSeq
	for c.Received < len(c.Payload) {
		r := 1
		empty := zs.next(c.Zeros)
		if empty {
			r = 0
		} else {
			if c.ReadSize != nil {
				r = c.ReadSize(c.Received)
			}
			if r < 1 {
				r = 1
			}
		}
		if len(c.Buf) < r {
			c.Buf = make([]byte, r)
		}
		n, err := c.R.Read(c.Buf[:r:r])
		c.Reads++
		if n < 0 || n > r {
			rp = &Problem{Key: "read-count-out-of-range", Desc: fmt.Sprintf("Read(len %d) returned n=%d", r, n)}
			break
		}
		if c.Received+n > len(c.Payload) {
			rp = &Problem{Key: "received-more-than-written", Desc: fmt.Sprintf("Read returned %d bytes at offset %d of a %d-byte payload", n, c.Received, len(c.Payload))}
			break
		}
		if want := c.Payload[c.Received : c.Received+n]; !bytes.Equal(c.Buf[:n], want) {
			i := 0
			for i < n && c.Buf[i] == want[i] {
				i++
			}
			rp = &Problem{Key: "received-bytes-differ", Desc: fmt.Sprintf("Read(len %d)=%d at offset %d: first differing byte at stream offset %d (got %#02x want %#02x)%s",
				r, n, c.Received, c.Received+i, c.Buf[i], want[i], whereFrom(c.Payload, c.Buf[i:n]))}
			break
		}
		c.Received += n
		if err != nil {
			if c.Received < len(c.Payload) {
				rp = &Problem{Key: "read-error-on-healthy-conn", Desc: fmt.Sprintf("Read returned %v after %d of %d bytes", err, c.Received, len(c.Payload))}
			}
			break
		}
		if empty {
			continue
		}
		if n == 0 {
			zero++
			if zero > 64 {
				rp = &Problem{Key: "reader-makes-no-progress", Desc: fmt.Sprintf("%d consecutive (0, nil) reads with a non-empty buffer at %d of %d bytes", zero, c.Received, len(c.Payload))}
				break
			}
		} else {
			zero = 0
		}
	}
	if rp != nil {
		// do not wait for a writer that may be blocked for good; the caller tears the connection down
		select {
		case w := <-ch:
			if w.p != nil {
				return w.p
			}
		default:
		}
		return rp
	}
	if w := <-ch; w.p != nil {
		return w.p
	}
	return nil
}
