// Package memconn is an in-memory duplex net.Conn for the fault / input-shape enumeration harnesses (engine E3).
//
// Properties that matter to the harnesses:
//   - no wall clock, no real network: blocking is sync.Cond based (durably blocking for testing/synctest),
//     deadlines are timers created where SetDeadline is called (virtual inside a bubble);
//   - writes never block (unbounded buffer), so a harness can drive writer and reader from one goroutine in
//     an order it chooses;
//   - the reading end can be told to return SHORT READS: at most k bytes per Read call following a cyclic
//     pattern (SetReadChunks), as a TCP socket may;
//   - the reading end can be told to return DATA TOGETHER WITH AN ERROR from one Read call, which the io.Reader
//     contract allows and message-based / buffered / QUIC-like connections do (a kernel socket and net.Pipe
//     never do): the segment that drains the stream after the writer closed comes together with io.EOF
//     (SetEOFWithData), and an injected read fault - a connection reset, an expired deadline - comes together
//     with the segment that ends at a chosen byte position (FailReadAfter);
//   - a capture / edit / release "wire editor": the reading end can hold back everything the peer writes
//     (HoldIncoming), the harness inspects the captured bytes (Held), edits them frame-aware (SplitFrames,
//     Edit.Apply in c02_wire.go) and injects the result (Inject) - a man in the middle that acts between
//     two harness steps, deterministically;
//   - it also satisfies manet.Conn and the method set of *net.TCPConn that
//     p2p/transport/tcpreuse/internal/sampledconn asks for.
package memconn

import (
	"errors"
	"io"
	"net"
	"os"
	"sync"
	"syscall"
	"time"

	ma "github.com/multiformats/go-multiaddr"
)

// pipe is one direction: bytes written by one end, read by the other.
type pipe struct {
	mu   sync.Mutex
	cond *sync.Cond

	buf []byte // deliverable bytes are buf[off:]
	off int

	wclosed bool // the writer closed: EOF once drained
	rclosed bool // the reader closed: reads and writes fail

	hold bool     // capture mode: writes go to held
	held [][]byte // one element per Write call

	chunks []int // short-read pattern of the reader (0 = unlimited), cyclic
	ci     int

	eofJoin bool       // the Read that drains the stream after the writer closed returns its bytes together with io.EOF
	fault   *readFault // injected read fault (FailReadAfter)

	rdGen     int // deadline generation (stale timers are ignored)
	rdExpired bool
	rdTimer   *time.Timer

	nRead, nWrite   int   // completed Read calls that returned data / Write calls
	bytesR, bytesW  int64 // bytes delivered to the reader / accepted from the writer
	writeSizes      []int // size of each accepted Write (kept up to maxWriteLog entries)
	readBlockedOnce bool  // a Read had to wait at least once
}

const maxWriteLog = 1 << 16

// readFault is an injected fault of the reading side: the connection breaks once `at` bytes in total have been
// delivered to the reader. The Read that delivers byte number `at` is cut there; it returns its bytes together
// with err (withData), or alone with the error following on the next call (the way a kernel socket reports
// it). From then on every Read returns (0, err): nothing that was still in flight is delivered.
type readFault struct {
	at       int64
	err      error
	withData bool
	fired    bool
}

func newPipe() *pipe {
	p := &pipe{}
	p.cond = sync.NewCond(&p.mu)
	return p
}

// Conn is one end of the duplex connection.
type Conn struct {
	in, out *pipe
	laddr   *net.TCPAddr
	raddr   *net.TCPAddr
	name    string

	closeMu sync.Mutex
	closed  bool
}

// Pair returns the two ends of a fresh connection: bytes written to a are read from b and vice versa.
func Pair() (a, b *Conn) {
	ab, ba := newPipe(), newPipe()
	la := &net.TCPAddr{IP: net.IPv4(127, 0, 0, 1), Port: 4001}
	lb := &net.TCPAddr{IP: net.IPv4(127, 0, 0, 1), Port: 4002}
	a = &Conn{in: ba, out: ab, laddr: la, raddr: lb, name: "a"}
	b = &Conn{in: ab, out: ba, laddr: lb, raddr: la, name: "b"}
	return a, b
}

var (
	_ net.Conn = (*Conn)(nil)
)

// ErrClosed is returned by operations on an end that was closed locally.
var ErrClosed = io.ErrClosedPipe

func (c *Conn) Read(b []byte) (int, error) {
	p := c.in
	p.mu.Lock()
	defer p.mu.Unlock()
	for {
		if p.rclosed {
			return 0, ErrClosed
		}
		if len(b) == 0 {
			return 0, nil
		}
		f := p.fault
		if f != nil && (f.fired || p.bytesR >= f.at) {
			f.fired = true
			return 0, f.err
		}
		if avail := len(p.buf) - p.off; avail > 0 {
			n := len(b)
			if n > avail {
				n = avail
			}
			if len(p.chunks) > 0 {
				if k := p.chunks[p.ci%len(p.chunks)]; k > 0 && n > k {
					n = k
				}
				p.ci++
			}
			var err error
			if f != nil && p.bytesR+int64(n) >= f.at {
				// the segment ends where the connection breaks
				n = int(f.at - p.bytesR)
				f.fired = true
				if f.withData {
					err = f.err
				}
			}
			copy(b, p.buf[p.off:p.off+n])
			p.off += n
			if p.off == len(p.buf) {
				p.buf, p.off = p.buf[:0], 0
				if p.eofJoin && p.wclosed && err == nil {
					err = io.EOF // the last segment and the end of the stream in one call
				}
			}
			p.nRead++
			p.bytesR += int64(n)
			return n, err
		}
		if p.wclosed {
			return 0, io.EOF
		}
		if p.rdExpired {
			return 0, os.ErrDeadlineExceeded
		}
		p.readBlockedOnce = true
		p.cond.Wait()
	}
}

func (c *Conn) Write(b []byte) (int, error) {
	p := c.out
	p.mu.Lock()
	defer p.mu.Unlock()
	if p.wclosed {
		return 0, ErrClosed
	}
	if p.rclosed {
		return 0, syscall.EPIPE
	}
	p.nWrite++
	p.bytesW += int64(len(b))
	if len(p.writeSizes) < maxWriteLog {
		p.writeSizes = append(p.writeSizes, len(b))
	}
	if p.hold {
		p.held = append(p.held, append([]byte(nil), b...))
		return len(b), nil
	}
	p.buf = append(p.buf, b...)
	p.cond.Broadcast()
	return len(b), nil
}

// Close closes both directions: the peer reads EOF after draining what was written; local reads fail.
func (c *Conn) Close() error {
	c.closeMu.Lock()
	if c.closed {
		c.closeMu.Unlock()
		return nil
	}
	c.closed = true
	c.closeMu.Unlock()
	c.CloseWrite()
	c.CloseRead()
	return nil
}

// CloseWrite half-closes: the peer reads EOF after draining.
func (c *Conn) CloseWrite() error {
	p := c.out
	p.mu.Lock()
	p.wclosed = true
	p.cond.Broadcast()
	p.mu.Unlock()
	return nil
}

// CloseRead makes local reads (and the peer's writes) fail.
func (c *Conn) CloseRead() error {
	p := c.in
	p.mu.Lock()
	p.rclosed = true
	if p.rdTimer != nil {
		p.rdTimer.Stop()
	}
	p.cond.Broadcast()
	p.mu.Unlock()
	return nil
}

func (c *Conn) LocalAddr() net.Addr  { return c.laddr }
func (c *Conn) RemoteAddr() net.Addr { return c.raddr }

func tcpMultiaddr(a *net.TCPAddr) ma.Multiaddr {
	m, err := ma.NewMultiaddr("/ip4/" + a.IP.String() + "/tcp/" + itoa(a.Port))
	if err != nil {
		panic(err)
	}
	return m
}

func itoa(v int) string {
	if v == 0 {
		return "0"
	}
	var b [20]byte
	i := len(b)
	for v > 0 {
		i--
		b[i] = byte('0' + v%10)
		v /= 10
	}
	return string(b[i:])
}

func (c *Conn) LocalMultiaddr() ma.Multiaddr  { return tcpMultiaddr(c.laddr) }
func (c *Conn) RemoteMultiaddr() ma.Multiaddr { return tcpMultiaddr(c.raddr) }

func (c *Conn) SetDeadline(t time.Time) error {
	c.SetReadDeadline(t)
	return c.SetWriteDeadline(t)
}

// SetReadDeadline arms a timer (virtual inside a synctest bubble); a blocked or later Read with nothing
// deliverable returns os.ErrDeadlineExceeded once it fired. Buffered data is still delivered first.
func (c *Conn) SetReadDeadline(t time.Time) error {
	p := c.in
	p.mu.Lock()
	defer p.mu.Unlock()
	p.rdGen++
	gen := p.rdGen
	if p.rdTimer != nil {
		p.rdTimer.Stop()
		p.rdTimer = nil
	}
	p.rdExpired = false
	if t.IsZero() || p.rclosed {
		return nil
	}
	d := time.Until(t)
	if d <= 0 {
		p.rdExpired = true
		p.cond.Broadcast()
		return nil
	}
	p.rdTimer = time.AfterFunc(d, func() {
		p.mu.Lock()
		if p.rdGen == gen {
			p.rdExpired = true
			p.cond.Broadcast()
		}
		p.mu.Unlock()
	})
	return nil
}

// SetWriteDeadline is accepted and ignored: writes never block.
func (c *Conn) SetWriteDeadline(time.Time) error { return nil }

// ---- controls used by the harnesses ----

// SetReadChunks makes Read on THIS end return at most pattern[i mod len] bytes on its i-th data-returning
// call (0 or no pattern = unlimited).
func (c *Conn) SetReadChunks(pattern ...int) {
	p := c.in
	p.mu.Lock()
	p.chunks = append([]int(nil), pattern...)
	p.ci = 0
	p.mu.Unlock()
}

// SetEOFWithData chooses how the end of the stream reaches THIS end's reader: off (default) - like a kernel
// socket, the bytes first and (0, io.EOF) from a later Read; on - the Read that hands out the last deliverable
// byte after the writer closed (or after EndIncoming) returns (n > 0, io.EOF), as io.Reader allows.
func (c *Conn) SetEOFWithData(on bool) {
	p := c.in
	p.mu.Lock()
	p.eofJoin = on
	p.mu.Unlock()
}

// FailReadAfter injects a read fault on THIS end: the connection breaks after k more bytes have been delivered
// to the reader. withData: the Read that delivers the last of them returns (n > 0, err) - the segment arrives
// together with the error; otherwise that Read returns (n, nil) and the next one (0, err). Afterwards every
// Read (with a non-empty buffer) returns (0, err). k <= 0: the next Read fails without data.
func (c *Conn) FailReadAfter(k int64, err error, withData bool) {
	p := c.in
	p.mu.Lock()
	p.fault = &readFault{at: p.bytesR + k, err: err, withData: withData}
	p.cond.Broadcast()
	p.mu.Unlock()
}

// ErrReset is the injected "connection reset by peer" (not a timeout, not temporary).
var ErrReset error = &net.OpError{Op: "read", Net: "tcp", Err: syscall.ECONNRESET}

// ErrTimeout is the injected expired read deadline (a net.Error with Timeout() == true).
var ErrTimeout error = &net.OpError{Op: "read", Net: "tcp", Err: os.ErrDeadlineExceeded}

// HoldIncoming switches capture mode for the direction peer -> this end. While on, the peer's writes succeed
// but are kept aside (one element per Write) instead of becoming readable here.
func (c *Conn) HoldIncoming(on bool) {
	p := c.in
	p.mu.Lock()
	p.hold = on
	p.mu.Unlock()
}

// Held returns (and forgets) what was captured since HoldIncoming(true), one element per peer Write.
func (c *Conn) Held() [][]byte {
	p := c.in
	p.mu.Lock()
	h := p.held
	p.held = nil
	p.mu.Unlock()
	return h
}

// Inject makes data readable on this end as if the peer had written it.
func (c *Conn) Inject(data []byte) {
	p := c.in
	p.mu.Lock()
	p.buf = append(p.buf, data...)
	p.cond.Broadcast()
	p.mu.Unlock()
}

// EndIncoming makes this end read EOF once the deliverable bytes are drained (the peer "closed" without
// the peer's Conn being touched).
func (c *Conn) EndIncoming() {
	p := c.in
	p.mu.Lock()
	p.wclosed = true
	p.cond.Broadcast()
	p.mu.Unlock()
}

// Buffered is the number of bytes deliverable to this end right now.
func (c *Conn) Buffered() int {
	p := c.in
	p.mu.Lock()
	defer p.mu.Unlock()
	return len(p.buf) - p.off
}

// PeekBuffered returns a copy of the bytes deliverable to this end right now (they stay deliverable).
func (c *Conn) PeekBuffered() []byte {
	p := c.in
	p.mu.Lock()
	defer p.mu.Unlock()
	return append([]byte(nil), p.buf[p.off:]...)
}

// Stats of this end: completed data-returning reads, bytes read, writes, bytes written.
type Stats struct {
	Reads, Writes         int
	BytesRead, BytesWrote int64
	ReadBlocked           bool
}

func (c *Conn) Stats() Stats {
	c.in.mu.Lock()
	s := Stats{Reads: c.in.nRead, BytesRead: c.in.bytesR, ReadBlocked: c.in.readBlockedOnce}
	c.in.mu.Unlock()
	c.out.mu.Lock()
	s.Writes, s.BytesWrote = c.out.nWrite, c.out.bytesW
	c.out.mu.Unlock()
	return s
}

// WriteSizes returns the sizes of the Write calls made on this end so far (first 65536).
func (c *Conn) WriteSizes() []int {
	c.out.mu.Lock()
	defer c.out.mu.Unlock()
	return append([]int(nil), c.out.writeSizes...)
}

// ---- the rest of the *net.TCPConn method set that sampledconn requires ----

var errNoSyscallConn = errors.New("memconn: no syscall.RawConn")

func (c *Conn) SyscallConn() (syscall.RawConn, error) { return nil, errNoSyscallConn }
func (c *Conn) SetLinger(int) error                   { return nil }
func (c *Conn) SetKeepAlive(bool) error               { return nil }
func (c *Conn) SetKeepAlivePeriod(time.Duration) error {
	return nil
}
func (c *Conn) SetNoDelay(bool) error       { return nil }
func (c *Conn) MultipathTCP() (bool, error) { return false, nil }

// ReadFrom / WriteTo are plain copy loops over Write / Read (no splice).
func (c *Conn) ReadFrom(r io.Reader) (int64, error) {
	var total int64
	buf := make([]byte, 32*1024)
	for {
		n, err := r.Read(buf)
		if n > 0 {
			w, werr := c.Write(buf[:n])
			total += int64(w)
			if werr != nil {
				return total, werr
			}
		}
		if err == io.EOF {
			return total, nil
		}
		if err != nil {
			return total, err
		}
	}
}

func (c *Conn) WriteTo(w io.Writer) (int64, error) {
	var total int64
	buf := make([]byte, 32*1024)
	for {
		n, err := c.Read(buf)
		if n > 0 {
			m, werr := w.Write(buf[:n])
			total += int64(m)
			if werr != nil {
				return total, werr
			}
		}
		if err == io.EOF {
			return total, nil
		}
		if err != nil {
			return total, err
		}
	}
}
