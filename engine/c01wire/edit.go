package c01wire

import (
	"encoding/binary"
	"fmt"
)

// Edit is one single man-in-the-middle edit of one frame.
type Edit struct {
	Kind string `json:"kind"`           // see Kinds
	Pos  int    `json:"pos,omitempty"`  // xor: byte position inside the frame (header included)
	Mask byte   `json:"mask,omitempty"` // xor: mask
}

func (e Edit) String() string {
	if e.Kind == "xor" {
		return fmt.Sprintf("xor@%d^%02x", e.Pos, e.Mask)
	}
	return e.Kind
}

// StructuralKinds are the non-positional edits applied by Apply (the splice with a second session, "swap",
// needs two links and is done by the harness). "-fix" = the length field of the frame header is made
// consistent with the new body; "-raw" = the header is left as it was (so the receiver's framing slips).
var StructuralKinds = []string{
	"trunc1-fix", "trunc1-raw", "trunchalf-fix", "trunchalf-raw",
	"append1-fix", "append1-raw", "append16-fix", "append16-raw",
	"drop", "dup",
}

func (f Framing) hdrLen() int {
	switch f {
	case FrameNoise:
		return 2
	case FrameTLS:
		return 5
	}
	return 0
}

func (f Framing) fix(frame []byte) {
	h := f.hdrLen()
	if h == 0 || len(frame) < h {
		return
	}
	binary.BigEndian.PutUint16(frame[h-2:h], uint16(len(frame)-h))
}

// Apply returns what is forwarded instead of frame. ok=false: the edit is not applicable to this frame
// (position beyond its end, body too short to truncate); the frame is then forwarded unchanged.
func (f Framing) Apply(frame []byte, e Edit) (out [][]byte, ok bool) {
	h := f.hdrLen()
	body := len(frame) - h
	cp := append([]byte{}, frame...)
	switch e.Kind {
	case "xor":
		if e.Pos < 0 || e.Pos >= len(cp) || e.Mask == 0 {
			return [][]byte{cp}, false
		}
		cp[e.Pos] ^= e.Mask
		return [][]byte{cp}, true
	case "trunc1-fix", "trunc1-raw", "trunchalf-fix", "trunchalf-raw":
		cut := 1
		if e.Kind[:9] == "trunchalf" {
			cut = body - body/2
		}
		if body < 1 || cut < 1 {
			return [][]byte{cp}, false
		}
		cp = cp[:len(cp)-cut]
		if e.Kind[len(e.Kind)-3:] == "fix" {
			f.fix(cp)
		}
		return [][]byte{cp}, true
	case "append1-fix", "append1-raw", "append16-fix", "append16-raw":
		n := 1
		if e.Kind[:8] == "append16" {
			n = 16
		}
		for i := 0; i < n; i++ {
			cp = append(cp, byte(0xa5+i))
		}
		if e.Kind[len(e.Kind)-3:] == "fix" {
			f.fix(cp)
		}
		return [][]byte{cp}, true
	case "drop":
		return nil, true
	case "dup":
		return [][]byte{cp, append([]byte{}, frame...)}, true
	}
	return [][]byte{cp}, false
}
