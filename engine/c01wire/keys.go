package c01wire

import (
	"crypto/sha256"
	"encoding/binary"
	"fmt"
	"sync"

	"github.com/libp2p/go-libp2p/core/crypto"
	"github.com/libp2p/go-libp2p/core/peer"
)

// Stream is SHA-256 in counter mode over (seed, label): the only source of harness "randomness". One-byte
// reads return a constant without advancing the stream: crypto/internal/randutil.MaybeReadByte (used by
// the stdlib RSA/ECDSA key generators to defeat deterministic readers) reads one byte with probability
// 1/2 and would otherwise make the generated key depend on a coin flip.
type Stream struct {
	seed [32]byte
	ctr  uint64
	buf  []byte
}

func NewStream(seed int64, label string) *Stream {
	return &Stream{seed: sha256.Sum256([]byte(fmt.Sprintf("verif-c01/seed=%d/%s", seed, label)))}
}

func (s *Stream) Read(p []byte) (int, error) {
	if len(p) == 1 {
		p[0] = 0
		return 1, nil
	}
	for i := range p {
		if len(s.buf) == 0 {
			var c [8]byte
			binary.BigEndian.PutUint64(c[:], s.ctr)
			s.ctr++
			h := sha256.Sum256(append(append([]byte{}, s.seed[:]...), c[:]...))
			s.buf = h[:]
		}
		p[i] = s.buf[0]
		s.buf = s.buf[1:]
	}
	return len(p), nil
}

// KeyTypes in the order used everywhere in the C01 harness.
var KeyTypes = []int{crypto.Ed25519, crypto.ECDSA, crypto.Secp256k1, crypto.RSA}

func TypeName(typ int) string {
	switch typ {
	case crypto.Ed25519:
		return "ed25519"
	case crypto.Secp256k1:
		return "secp256k1"
	case crypto.ECDSA:
		return "ecdsa"
	case crypto.RSA:
		return "rsa2048"
	}
	return fmt.Sprint("type", typ)
}

// CanonSigLen is the signature length the harness treats as canonical for a key type. Ed25519 and RSA-2048
// signatures have a fixed length; DER-encoded ECDSA (P-256) signatures are 70..72 bytes (71 with
// probability 1/2) and secp256k1 (low-S) signatures 70 or 71; byte positions of handshake messages are
// enumerated over messages carrying a canonical-length signature (runs where the code under test happened
// to produce another length are repeated).
func CanonSigLen(typ int) int {
	switch typ {
	case crypto.Ed25519:
		return 64
	case crypto.RSA:
		return 256
	}
	return 71
}

type Key struct {
	Name     string
	Typ, Idx int
	Priv     crypto.PrivKey
	Pub      crypto.PubKey
	ID       peer.ID
	PubBytes []byte // crypto.MarshalPublicKey
}

var (
	keyMu    sync.Mutex
	keyCache = map[string]*Key{}
)

// GenKey returns the idx-th identity key of a type, a deterministic function of (seed, type, idx) where the
// generator allows it (RSA generation in recent Go versions may still consult the system RNG; nothing in the
// harness depends on the key VALUE, only on its type and size).
func GenKey(seed int64, typ, idx int) (*Key, error) {
	name := fmt.Sprintf("%s#%d", TypeName(typ), idx)
	ck := fmt.Sprintf("%d/%s", seed, name)
	keyMu.Lock()
	defer keyMu.Unlock()
	if k, ok := keyCache[ck]; ok {
		return k, nil
	}
	src := NewStream(seed, "key/"+name)
	var priv crypto.PrivKey
	var pub crypto.PubKey
	var err error
	switch typ {
	case crypto.Secp256k1:
		// GenerateSecp256k1Key ignores its reader (always crypto/rand): derive the scalar ourselves.
		b := make([]byte, 32)
		src.Read(b)
		priv, err = crypto.UnmarshalSecp256k1PrivateKey(b)
		if err == nil {
			pub = priv.GetPublic()
		}
	default:
		priv, pub, err = crypto.GenerateKeyPairWithReader(typ, 2048, src)
	}
	if err != nil {
		return nil, fmt.Errorf("cannot generate %s: %w", name, err)
	}
	k := &Key{Name: name, Typ: typ, Idx: idx, Priv: priv, Pub: pub}
	if k.PubBytes, err = crypto.MarshalPublicKey(pub); err != nil {
		return nil, fmt.Errorf("cannot marshal public key %s: %w", name, err)
	}
	if k.ID, err = peer.IDFromPublicKey(pub); err != nil {
		return nil, fmt.Errorf("cannot derive the peer ID of %s: %w", name, err)
	}
	keyCache[ck] = k
	return k, nil
}
