// Package c01wire is the in-memory wire used by the C01 (handshake authentication) harnesses: a duplex
// net.Conn pair whose two directions pass through a message-aware man in the middle.
//
// Design constraints (they are what make the C01 oracle exact):
//
//   - Everything blocks on sync.Cond only, so inside a testing/synctest bubble a stalled handshake is
//     "durably blocked" and is ended by a virtual-time deadline at no wall-clock cost. Links must be created
//     inside the bubble that uses them.
//   - Writes never block (unbounded buffer, like a TCP send buffer that is never full) and a write to a peer
//     that has already gone away succeeds silently, as it would on TCP: this is the worst case for the
//     property (a side that has sent its last handshake message completes without learning anything).
//   - The sender's byte stream is cut into the sender's frames (Noise: 2-byte big-endian length prefix; TLS:
//     5-byte record header); the Hook of the direction sees each frame with its index and returns the byte
//     strings to forward instead (nil = drop, two = duplicate, ...). The forwarded bytes are then re-cut
//     according to the SAME framing as the receiver will parse it, and handed to the receiver one parsed
//     frame per Read call. A receiver that only reads when it needs more input (bufio / crypto/tls both do)
//     therefore never pulls bytes of a frame it has not asked for, and End.Consumed() at the moment its
//     handshake call returns is exactly the number of bytes its handshake processed.
//   - Both ends keep the complete log of what was written (Sent) and of what was delivered (Received).
package c01wire

import (
	"encoding/binary"
	"io"
	"net"
	"os"
	"sync"
	"time"
)

// Framing tells how a byte stream is cut into messages.
type Framing int

const (
	// FrameWrite: every Write call is one frame.
	FrameWrite Framing = iota
	// FrameNoise: 2-byte big-endian length prefix followed by that many bytes.
	FrameNoise
	// FrameTLS: TLS record: type(1) version(2) length(2) followed by length bytes.
	FrameTLS
)

// frameLen returns the total length (header included) of the frame that starts at b[0], or 0 when b does
// not yet hold the complete header.
func (f Framing) frameLen(b []byte) int {
	switch f {
	case FrameNoise:
		if len(b) < 2 {
			return 0
		}
		return 2 + int(binary.BigEndian.Uint16(b))
	case FrameTLS:
		if len(b) < 5 {
			return 0
		}
		return 5 + int(binary.BigEndian.Uint16(b[3:]))
	}
	return len(b)
}

// Split cuts b into complete frames; rest is the incomplete tail (nil when b ends on a frame boundary).
func (f Framing) Split(b []byte) (frames [][]byte, rest []byte) {
	if f == FrameWrite {
		if len(b) > 0 {
			frames = append(frames, b)
		}
		return frames, nil
	}
	for len(b) > 0 {
		n := f.frameLen(b)
		if n == 0 || n > len(b) {
			return frames, b
		}
		frames = append(frames, b[:n:n])
		b = b[n:]
	}
	return frames, nil
}

// Hook sees frame number idx (0-based, in the order the honest sender produced them) of one direction
// and returns what is forwarded instead. It runs in the writer's goroutine. A nil Hook forwards unchanged.
type Hook func(idx int, frame []byte) [][]byte

type addr string

func (a addr) Network() string { return "c01wire" }
func (a addr) String() string  { return string(a) }

// Link is one connection between End(0) and End(1).
type Link struct {
	ends [2]*End
}

// End is one end of a Link. It implements net.Conn.
type End struct {
	link    *Link
	side    int
	framing Framing

	// sender side of the direction side -> 1-side
	smu   sync.Mutex
	sbuf  []byte
	sidx  int
	hook  Hook
	sent  []byte
	wdl   time.Time
	wdone bool

	// receiver side
	mu        sync.Mutex
	cond      *sync.Cond
	inbox     [][]byte
	rfbuf     []byte // forwarded bytes not yet making up a whole frame
	rfdone    int    // how many bytes of rfbuf were already handed to the inbox
	received  []byte
	consumed  int
	closed    bool
	peerGone  bool
	rdl       time.Time
	rtimer    *time.Timer
	readCalls int
}

// NewLink creates a connected pair. framing applies to both directions.
func NewLink(framing Framing) *Link {
	l := &Link{}
	for i := range l.ends {
		e := &End{link: l, side: i, framing: framing}
		e.cond = sync.NewCond(&e.mu)
		l.ends[i] = e
	}
	return l
}

// End returns end i (0 or 1).
func (l *Link) End(i int) *End { return l.ends[i] }

// SetHook installs the man in the middle for the direction that STARTS at end `from`.
func (l *Link) SetHook(from int, h Hook) {
	e := l.ends[from]
	e.smu.Lock()
	e.hook = h
	e.smu.Unlock()
}

// Inject delivers b to end `to` as if it had come over the wire (used to splice in frames of another
// session). It never blocks.
func (l *Link) Inject(to int, b []byte) { l.ends[to].deliver(b) }

func (e *End) peer() *End { return e.link.ends[1-e.side] }

// ---- receiver side ----

// deliver appends forwarded bytes to the receiver's stream and hands out every frame that became complete;
// an incomplete tail is handed out as well (the receiver would block on it anyway) but remembered, so that
// the continuation is aligned.
func (e *End) deliver(b []byte) {
	if len(b) == 0 {
		return
	}
	e.mu.Lock()
	defer e.mu.Unlock()
	if e.closed {
		return
	}
	e.received = append(e.received, b...)
	if e.framing == FrameWrite {
		e.inbox = append(e.inbox, append([]byte{}, b...))
		e.cond.Broadcast()
		return
	}
	e.rfbuf = append(e.rfbuf, b...)
	for {
		n := e.framing.frameLen(e.rfbuf)
		if n == 0 || n > len(e.rfbuf) {
			break
		}
		if n > e.rfdone {
			e.inbox = append(e.inbox, append([]byte{}, e.rfbuf[e.rfdone:n]...))
		}
		e.rfbuf = e.rfbuf[n:]
		e.rfdone = 0
	}
	if len(e.rfbuf) > e.rfdone {
		e.inbox = append(e.inbox, append([]byte{}, e.rfbuf[e.rfdone:]...))
		e.rfdone = len(e.rfbuf)
	}
	e.cond.Broadcast()
}

type timeoutError struct{}

func (timeoutError) Error() string   { return "c01wire: i/o timeout" }
func (timeoutError) Timeout() bool   { return true }
func (timeoutError) Temporary() bool { return true }
func (timeoutError) Unwrap() error   { return os.ErrDeadlineExceeded }

// Read returns at most one delivered chunk (= one frame as the receiver parses it).
func (e *End) Read(p []byte) (int, error) {
	e.mu.Lock()
	defer e.mu.Unlock()
	e.readCalls++
	for {
		if e.closed {
			return 0, net.ErrClosed
		}
		if len(e.inbox) > 0 {
			if len(p) == 0 {
				return 0, nil
			}
			c := e.inbox[0]
			n := copy(p, c)
			if n == len(c) {
				e.inbox = e.inbox[1:]
			} else {
				e.inbox[0] = c[n:]
			}
			e.consumed += n
			return n, nil
		}
		if e.peerGone {
			return 0, io.EOF
		}
		if !e.rdl.IsZero() && !time.Now().Before(e.rdl) {
			return 0, timeoutError{}
		}
		e.cond.Wait()
	}
}

// ---- sender side ----

func (e *End) Write(p []byte) (int, error) {
	e.mu.Lock()
	closed := e.closed
	e.mu.Unlock()
	if closed {
		return 0, net.ErrClosed
	}
	e.smu.Lock()
	defer e.smu.Unlock()
	if e.wdone {
		return 0, net.ErrClosed
	}
	if !e.wdl.IsZero() && !time.Now().Before(e.wdl) {
		return 0, timeoutError{}
	}
	e.sent = append(e.sent, p...)
	e.sbuf = append(e.sbuf, p...)
	frames, rest := e.framing.Split(e.sbuf)
	for _, f := range frames {
		e.forward(f)
	}
	e.sbuf = append([]byte{}, rest...)
	return len(p), nil
}

// forward runs the hook on one sender frame. Called with smu held.
func (e *End) forward(f []byte) {
	idx := e.sidx
	e.sidx++
	out := [][]byte{f}
	if e.hook != nil {
		out = e.hook(idx, append([]byte{}, f...))
	}
	for _, o := range out {
		e.peer().deliver(o)
	}
}

// Close closes this end: pending partial output is flushed raw, the peer sees EOF after draining.
func (e *End) Close() error {
	e.mu.Lock()
	if e.closed {
		e.mu.Unlock()
		return nil
	}
	e.closed = true
	e.inbox = nil
	if e.rtimer != nil {
		e.rtimer.Stop()
	}
	e.cond.Broadcast()
	e.mu.Unlock()

	e.smu.Lock()
	if !e.wdone {
		e.wdone = true
		if len(e.sbuf) > 0 {
			e.forward(e.sbuf)
			e.sbuf = nil
		}
	}
	e.smu.Unlock()

	p := e.peer()
	p.mu.Lock()
	p.peerGone = true
	p.cond.Broadcast()
	p.mu.Unlock()
	return nil
}

func (e *End) LocalAddr() net.Addr  { return addr([]string{"end0", "end1"}[e.side]) }
func (e *End) RemoteAddr() net.Addr { return addr([]string{"end0", "end1"}[1-e.side]) }

func (e *End) SetDeadline(t time.Time) error {
	e.SetReadDeadline(t)
	return e.SetWriteDeadline(t)
}

func (e *End) SetReadDeadline(t time.Time) error {
	e.mu.Lock()
	defer e.mu.Unlock()
	if e.closed {
		return net.ErrClosed
	}
	e.rdl = t
	if e.rtimer != nil {
		e.rtimer.Stop()
		e.rtimer = nil
	}
	if !t.IsZero() {
		d := time.Until(t)
		if d < 0 {
			d = 0
		}
		e.rtimer = time.AfterFunc(d, func() {
			e.mu.Lock()
			e.cond.Broadcast()
			e.mu.Unlock()
		})
	}
	e.cond.Broadcast()
	return nil
}

func (e *End) SetWriteDeadline(t time.Time) error {
	e.smu.Lock()
	e.wdl = t
	e.smu.Unlock()
	return nil
}

// ---- observation ----

// Consumed is the number of bytes the owner of this end has read so far.
func (e *End) Consumed() int {
	e.mu.Lock()
	defer e.mu.Unlock()
	return e.consumed
}

// Received is a copy of every byte delivered towards this end so far (read or not).
func (e *End) Received() []byte {
	e.mu.Lock()
	defer e.mu.Unlock()
	return append([]byte{}, e.received...)
}

// Sent is a copy of every byte the owner of this end has written so far (before the man in the middle).
func (e *End) Sent() []byte {
	e.smu.Lock()
	defer e.smu.Unlock()
	return append([]byte{}, e.sent...)
}

// Closed reports whether the owner closed this end.
func (e *End) Closed() bool {
	e.mu.Lock()
	defer e.mu.Unlock()
	return e.closed
}
