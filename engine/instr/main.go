// Source instrumenter for the controlled scheduler (engine E2; rules in /verif/DESIGN.md Appendix A).
//
// usage: instr -pkg <import path> -repo /repo -out <dir> -shim <import path prefix of shim packages>
// Writes rewritten copies of the package's non-test Go files into <dir> and prints overlay JSON
// "Replace" entries (original path -> rewritten path) on stdout.
package main

import (
	"bytes"
	"encoding/json"
	"flag"
	"fmt"
	"go/ast"
	"go/importer"
	"go/printer"
	"go/token"
	"go/types"
	"io"
	"os"
	"os/exec"
	"path/filepath"
	"reflect"
	"strconv"
	"strings"

	"go/parser"
)

type listPkg struct {
	ImportPath string
	Dir        string
	Export     string
	GoFiles    []string
	ImportMap  map[string]string
	ForTest    string
}

// overlay maps virtual paths to real files (go build -overlay format).
var overlay = map[string]string{}

func readSrc(path string) (string, error) {
	if m, ok := overlay[path]; ok {
		path = m
	}
	b, err := os.ReadFile(path)
	return string(b), err
}

func goList(repo, pkg, tags, ov string, test bool) (target *listPkg, exports map[string]string) {
	args := []string{"list", "-tags", tags, "-export", "-deps", "-json=ImportPath,Dir,Export,GoFiles,ImportMap,ForTest"}
	if ov != "" {
		args = append(args, "-overlay", ov)
	}
	if test {
		args = append(args, "-test")
	}
	args = append(args, pkg)
	cmd := exec.Command("go", args...)
	cmd.Dir = repo
	cmd.Stderr = os.Stderr
	out, err := cmd.Output()
	if err != nil {
		fatalf("go list: %v", err)
	}
	exports = map[string]string{}
	dec := json.NewDecoder(bytes.NewReader(out))
	for {
		var p listPkg
		if err := dec.Decode(&p); err == io.EOF {
			break
		} else if err != nil {
			fatalf("decode: %v", err)
		}
		if p.Export != "" {
			exports[p.ImportPath] = p.Export
		}
		pp := p
		if test {
			// the package recompiled for its own test: "path [path.test]", internal test files included
			if strings.HasSuffix(p.ImportPath, ".test]") && !strings.Contains(p.ImportPath, "_test [") && p.ForTest != "" && strings.HasPrefix(p.ImportPath, p.ForTest+" [") {
				target = &pp
			}
			continue
		}
		target = &pp // last one printed is the requested package
	}
	if target == nil {
		fatalf("go list: target package not found")
	}
	return
}

func fatalf(f string, a ...any) { fmt.Fprintf(os.Stderr, "instr: "+f+"\n", a...); os.Exit(2) }

type rewriter struct {
	fset     *token.FileSet
	info     *types.Info
	shim     string
	vs       string // local name of the vsched import
	usedVS   bool
	tmp      int
	native   map[ast.Node]bool // nodes that must not be rewritten again
	stats    map[string]int
	curFile  string
	pcs      []string
	funcDepth int
	syncWaitName string // local name of testing/synctest in the current file if a Wait call was rewritten
}

func (r *rewriter) name(p string) *ast.Ident {
	r.tmp++
	return ast.NewIdent(fmt.Sprintf("_vs%s%d", p, r.tmp))
}

func (r *rewriter) pc(n ast.Node) ast.Expr {
	pos := r.fset.Position(n.Pos())
	r.pcs = append(r.pcs, fmt.Sprintf("%s:%d:%d", filepath.Base(pos.Filename), pos.Line, pos.Column))
	return &ast.BasicLit{Kind: token.INT, Value: strconv.Itoa(len(r.pcs) - 1)}
}

func (r *rewriter) call(fn string, args ...ast.Expr) *ast.CallExpr {
	r.usedVS = true
	return &ast.CallExpr{Fun: &ast.SelectorExpr{X: ast.NewIdent(r.vs), Sel: ast.NewIdent(fn)}, Args: args}
}

func (r *rewriter) callStmt(fn string, args ...ast.Expr) ast.Stmt {
	return &ast.ExprStmt{X: r.call(fn, args...)}
}

func isArrow(e ast.Expr) (*ast.UnaryExpr, bool) {
	for {
		if p, ok := e.(*ast.ParenExpr); ok {
			e = p.X
			continue
		}
		break
	}
	u, ok := e.(*ast.UnaryExpr)
	if ok && u.Op == token.ARROW {
		return u, true
	}
	return nil, false
}

func (r *rewriter) isChan(e ast.Expr) bool {
	tv, ok := r.info.Types[e]
	if !ok || tv.Type == nil {
		return false
	}
	_, isCh := tv.Type.Underlying().(*types.Chan)
	return isCh
}

func (r *rewriter) isMap(e ast.Expr) bool {
	tv, ok := r.info.Types[e]
	if !ok || tv.Type == nil {
		return false
	}
	_, isM := tv.Type.Underlying().(*types.Map)
	return isM
}

// refKeyMap reports whether e is a map whose key has no natural order (pointer, interface, channel).
func (r *rewriter) refKeyMap(e ast.Expr) bool {
	tv, ok := r.info.Types[e]
	if !ok || tv.Type == nil {
		return false
	}
	m, isM := tv.Type.Underlying().(*types.Map)
	if !isM {
		return false
	}
	switch m.Key().Underlying().(type) {
	case *types.Pointer, *types.Interface, *types.Chan:
		return true
	}
	return false
}

// rangeMap: Go randomises map iteration order, which the scheduler cannot own. The loop is rewritten to visit
// the keys in a deterministic order (natural order, or order of insertion for reference keys):
//   for k, v := range m { B }  ->  for _it := vs.MapRange(m); _it.Next(); { k, v := _it.K, _it.V; B }
// Entries deleted during the iteration are skipped, entries added are not visited - both allowed by the spec.
func (r *rewriter) rangeMap(n *ast.RangeStmt) ast.Stmt {
	r.stats["range-map"]++
	it := r.name("it")
	init := &ast.AssignStmt{Lhs: []ast.Expr{it}, Tok: token.DEFINE, Rhs: []ast.Expr{r.call("MapRange", r.expr(n.X))}}
	cond := &ast.CallExpr{Fun: &ast.SelectorExpr{X: it, Sel: ast.NewIdent("Next")}}
	var head []ast.Stmt
	var lhs, rhs []ast.Expr
	if n.Key != nil {
		if id, ok := n.Key.(*ast.Ident); !ok || id.Name != "_" {
			lhs = append(lhs, n.Key)
			rhs = append(rhs, &ast.SelectorExpr{X: it, Sel: ast.NewIdent("K")})
		}
	}
	if n.Value != nil {
		if id, ok := n.Value.(*ast.Ident); !ok || id.Name != "_" {
			lhs = append(lhs, n.Value)
			rhs = append(rhs, &ast.SelectorExpr{X: it, Sel: ast.NewIdent("V")})
		}
	}
	if len(lhs) > 0 {
		head = append(head, &ast.AssignStmt{Lhs: lhs, Tok: n.Tok, Rhs: rhs})
		if n.Tok == token.DEFINE {
			// avoid "declared and not used" for loop variables the body ignores
			for _, l := range lhs {
				head = append(head, &ast.AssignStmt{Lhs: []ast.Expr{ast.NewIdent("_")}, Tok: token.ASSIGN, Rhs: []ast.Expr{l}})
			}
		}
	}
	body := append(head, r.stmts(n.Body.List)...)
	return &ast.ForStmt{Init: init, Cond: cond, Body: &ast.BlockStmt{List: body}}
}

// constOrNil reports whether e must not be hoisted with := (untyped constant or nil).
func (r *rewriter) constOrNil(e ast.Expr) bool {
	tv, ok := r.info.Types[e]
	if !ok {
		return false
	}
	if tv.IsNil() {
		return true
	}
	if b, ok := tv.Type.(*types.Basic); ok && b.Info()&types.IsUntyped != 0 {
		return true
	}
	return false
}

func (r *rewriter) isBuiltinClose(c *ast.CallExpr) bool {
	id, ok := c.Fun.(*ast.Ident)
	if !ok || id.Name != "close" {
		return false
	}
	_, isB := r.info.Uses[id].(*types.Builtin)
	return isB
}

// ---- statement lists ----

func (r *rewriter) stmts(list []ast.Stmt) []ast.Stmt {
	var out []ast.Stmt
	for _, s := range list {
		out = append(out, r.stmt(s))
	}
	return out
}

// stmt rewrites one statement that sits directly in a statement list.
func (r *rewriter) stmt(s ast.Stmt) ast.Stmt {
	switch n := s.(type) {
	case *ast.LabeledStmt:
		n.Stmt = r.stmt(n.Stmt)
		return n
	case *ast.BlockStmt:
		n.List = r.stmts(n.List)
		return n
	case *ast.IfStmt:
		r.exprsIn(&n.Init)
		n.Cond = r.expr(n.Cond)
		n.Body.List = r.stmts(n.Body.List)
		if n.Else != nil {
			n.Else = r.stmt(n.Else)
		}
		return n
	case *ast.ForStmt:
		r.exprsIn(&n.Init)
		if n.Cond != nil {
			n.Cond = r.expr(n.Cond)
		}
		r.exprsIn(&n.Post)
		n.Body.List = r.stmts(n.Body.List)
		return n
	case *ast.RangeStmt:
		if r.isChan(n.X) {
			return r.rangeChan(n)
		}
		if r.isMap(n.X) {
			return r.rangeMap(n)
		}
		n.X = r.expr(n.X)
		n.Body.List = r.stmts(n.Body.List)
		return n
	case *ast.SwitchStmt:
		r.exprsIn(&n.Init)
		if n.Tag != nil {
			n.Tag = r.expr(n.Tag)
		}
		for _, c := range n.Body.List {
			cc := c.(*ast.CaseClause)
			for i := range cc.List {
				cc.List[i] = r.expr(cc.List[i])
			}
			cc.Body = r.stmts(cc.Body)
		}
		return n
	case *ast.TypeSwitchStmt:
		r.exprsIn(&n.Init)
		r.exprsIn(&n.Assign)
		for _, c := range n.Body.List {
			cc := c.(*ast.CaseClause)
			cc.Body = r.stmts(cc.Body)
		}
		return n
	case *ast.SelectStmt:
		return r.selectStmt(n)
	case *ast.SendStmt:
		r.stats["send"]++
		n.Chan = r.expr(n.Chan)
		n.Value = r.expr(n.Value)
		return &ast.BlockStmt{List: []ast.Stmt{r.callStmt("Point", r.pc(n)), n, r.callStmt("After")}}
	case *ast.GoStmt:
		return r.goStmt(n)
	case *ast.ExprStmt:
		if c, ok := n.X.(*ast.CallExpr); ok && r.isBuiltinClose(c) {
			r.stats["close"]++
			for i := range c.Args {
				c.Args[i] = r.expr(c.Args[i])
			}
			return &ast.BlockStmt{List: []ast.Stmt{r.callStmt("Point", r.pc(n)), n}}
		}
		n.X = r.expr(n.X)
		return n
	case *ast.AssignStmt:
		if len(n.Lhs) == 1 && len(n.Rhs) == 1 && n.Tok == token.ASSIGN {
			if ix, ok := n.Lhs[0].(*ast.IndexExpr); ok && r.refKeyMap(ix.X) {
				r.stats["map-set"]++
				k := r.name("k")
				pre := &ast.AssignStmt{Lhs: []ast.Expr{k}, Tok: token.DEFINE, Rhs: []ast.Expr{r.expr(ix.Index)}}
				ix.X = r.expr(ix.X)
				ix.Index = k
				n.Rhs[0] = r.expr(n.Rhs[0])
				return &ast.BlockStmt{List: []ast.Stmt{pre, r.callStmt("Born", k), n}}
			}
		}
		if len(n.Lhs) == 2 && len(n.Rhs) == 1 {
			if u, ok := isArrow(n.Rhs[0]); ok {
				r.stats["recv2"]++
				n.Rhs[0] = r.call("Recv2", r.pc(u), r.expr(u.X))
				for i := range n.Lhs {
					n.Lhs[i] = r.expr(n.Lhs[i])
				}
				return n
			}
		}
		for i := range n.Lhs {
			n.Lhs[i] = r.expr(n.Lhs[i])
		}
		for i := range n.Rhs {
			n.Rhs[i] = r.expr(n.Rhs[i])
		}
		return n
	case *ast.DeclStmt:
		if gd, ok := n.Decl.(*ast.GenDecl); ok {
			for _, sp := range gd.Specs {
				if vsp, ok := sp.(*ast.ValueSpec); ok {
					if len(vsp.Names) == 2 && len(vsp.Values) == 1 {
						if u, ok := isArrow(vsp.Values[0]); ok {
							r.stats["recv2"]++
							vsp.Values[0] = r.call("Recv2", r.pc(u), r.expr(u.X))
							continue
						}
					}
					for i := range vsp.Values {
						vsp.Values[i] = r.expr(vsp.Values[i])
					}
				}
			}
		}
		return n
	case *ast.ReturnStmt:
		for i := range n.Results {
			n.Results[i] = r.expr(n.Results[i])
		}
		return n
	case *ast.DeferStmt:
		n.Call = r.expr(n.Call).(*ast.CallExpr)
		return n
	case *ast.IncDecStmt:
		n.X = r.expr(n.X)
		return n
	default:
		return s
	}
}

// exprsIn rewrites expressions inside a simple statement slot (if/for/switch init etc.)
// without changing the statement kind.
func (r *rewriter) exprsIn(sp *ast.Stmt) {
	if *sp == nil {
		return
	}
	switch n := (*sp).(type) {
	case *ast.AssignStmt, *ast.ExprStmt, *ast.IncDecStmt, *ast.DeclStmt:
		*sp = r.stmt(n)
	case *ast.SendStmt:
		// a send in a simple-statement slot: leave native (rare), only rewrite sub-expressions
		n.Chan = r.expr(n.Chan)
		n.Value = r.expr(n.Value)
		r.stats["send-in-simple-slot"]++
	}
}

// expr rewrites receive expressions and function literals inside e.
func (r *rewriter) expr(e ast.Expr) ast.Expr {
	if e == nil {
		return nil
	}
	return r.walkExpr(reflect.ValueOf(&e).Elem()).Interface().(ast.Expr)
}

var exprType = reflect.TypeOf((*ast.Expr)(nil)).Elem()

func (r *rewriter) walkExpr(v reflect.Value) reflect.Value {
	// v is a settable reflect.Value of interface type ast.Expr
	if v.IsNil() {
		return v
	}
	e := v.Interface().(ast.Expr)
	if r.native[e] {
		return v
	}
	switch n := e.(type) {
	case *ast.CallExpr:
		if sel, ok := n.Fun.(*ast.SelectorExpr); ok && sel.Sel.Name == "Wait" && len(n.Args) == 0 {
			if id, ok := sel.X.(*ast.Ident); ok {
				if pn, ok := r.info.Uses[id].(*types.PkgName); ok && pn.Imported().Path() == "testing/synctest" {
					// synctest.Wait() inside a scheduled thread would collide with the scheduler's own Wait
					r.stats["synctest-wait"]++
					r.syncWaitName = id.Name
					v.Set(reflect.ValueOf(r.call("SyncWait")))
					return v
				}
			}
		}
	case *ast.FuncLit:
		r.funcDepth++
		n.Body.List = r.stmts(n.Body.List)
		r.funcDepth--
		return v
	case *ast.UnaryExpr:
		if n.Op == token.ARROW {
			r.stats["recv"]++
			x := r.expr(n.X)
			v.Set(reflect.ValueOf(r.call("Recv", r.pc(n), x)))
			return v
		}
	}
	// generic descent into child expression fields
	rv := reflect.ValueOf(e)
	if rv.Kind() == reflect.Ptr {
		rv = rv.Elem()
	}
	if rv.Kind() != reflect.Struct {
		return v
	}
	for i := 0; i < rv.NumField(); i++ {
		f := rv.Field(i)
		switch {
		case f.Type() == exprType:
			r.walkExpr(f)
		case f.Kind() == reflect.Slice && f.Type().Elem() == exprType:
			for j := 0; j < f.Len(); j++ {
				r.walkExpr(f.Index(j))
			}
		case f.Kind() == reflect.Ptr && !f.IsNil():
			switch c := f.Interface().(type) {
			case *ast.FuncLit:
				r.funcDepth++
				c.Body.List = r.stmts(c.Body.List)
				r.funcDepth--
			case *ast.FieldList, *ast.Ident, *ast.BasicLit, *ast.Object, *ast.BlockStmt:
			case *ast.CallExpr:
				var ee ast.Expr = c
				ee = r.expr(ee)
				if cc, ok := ee.(*ast.CallExpr); ok {
					f.Set(reflect.ValueOf(cc))
				}
			}
		}
	}
	// composite literal key-value elements etc. are covered (KeyValueExpr is an Expr).
	return v
}

func (r *rewriter) rangeChan(n *ast.RangeStmt) ast.Stmt {
	r.stats["range-chan"]++
	okv := r.name("ok")
	recv := r.call("Recv2", r.pc(n), r.expr(n.X))
	var head []ast.Stmt
	switch {
	case n.Key == nil:
		head = append(head, &ast.AssignStmt{Lhs: []ast.Expr{ast.NewIdent("_"), okv}, Tok: token.DEFINE, Rhs: []ast.Expr{recv}})
	case n.Tok == token.DEFINE:
		head = append(head, &ast.AssignStmt{Lhs: []ast.Expr{n.Key, okv}, Tok: token.DEFINE, Rhs: []ast.Expr{recv}})
	default:
		head = append(head,
			&ast.DeclStmt{Decl: &ast.GenDecl{Tok: token.VAR, Specs: []ast.Spec{&ast.ValueSpec{Names: []*ast.Ident{okv}, Type: ast.NewIdent("bool")}}}},
			&ast.AssignStmt{Lhs: []ast.Expr{n.Key, okv}, Tok: token.ASSIGN, Rhs: []ast.Expr{recv}})
	}
	head = append(head, &ast.IfStmt{Cond: &ast.UnaryExpr{Op: token.NOT, X: okv}, Body: &ast.BlockStmt{List: []ast.Stmt{&ast.BranchStmt{Tok: token.BREAK}}}})
	body := append(head, r.stmts(n.Body.List)...)
	return &ast.ForStmt{Body: &ast.BlockStmt{List: body}}
}

func (r *rewriter) goStmt(n *ast.GoStmt) ast.Stmt {
	r.stats["go"]++
	var pre []ast.Stmt
	call := n.Call
	// function value
	var fn ast.Expr
	if fl, ok := call.Fun.(*ast.FuncLit); ok {
		r.funcDepth++
		fl.Body.List = r.stmts(fl.Body.List)
		r.funcDepth--
		fn = fl
	} else {
		f := r.name("f")
		pre = append(pre, &ast.AssignStmt{Lhs: []ast.Expr{f}, Tok: token.DEFINE, Rhs: []ast.Expr{r.expr(call.Fun)}})
		fn = f
	}
	var args []ast.Expr
	for _, a := range call.Args {
		if r.constOrNil(a) {
			args = append(args, a)
			continue
		}
		v := r.name("a")
		pre = append(pre, &ast.AssignStmt{Lhs: []ast.Expr{v}, Tok: token.DEFINE, Rhs: []ast.Expr{r.expr(a)}})
		args = append(args, v)
	}
	id := r.name("id")
	pre = append(pre, &ast.AssignStmt{Lhs: []ast.Expr{id}, Tok: token.DEFINE, Rhs: []ast.Expr{r.call("Spawn", r.pc(n))}})
	inner := &ast.CallExpr{Fun: fn, Args: args, Ellipsis: call.Ellipsis}
	body := []ast.Stmt{
		r.callStmt("Start", id),
		&ast.DeferStmt{Call: r.call("Exit")},
		&ast.ExprStmt{X: inner},
	}
	gostmt := &ast.GoStmt{Call: &ast.CallExpr{Fun: &ast.FuncLit{Type: &ast.FuncType{Params: &ast.FieldList{}}, Body: &ast.BlockStmt{List: body}}}}
	return &ast.BlockStmt{List: append(pre, gostmt)}
}

type selCase struct {
	isSend, isDefault bool
	ch, val           ast.Expr   // hoisted operands
	slot              *ast.Ident // for value-receiving cases
	lhs               []ast.Expr
	tok               token.Token
	body              []ast.Stmt
}

func (r *rewriter) selectStmt(n *ast.SelectStmt) ast.Stmt {
	r.stats["select"]++
	var pre []ast.Stmt
	var cases []*selCase
	var def *selCase
	for _, c := range n.Body.List {
		cc := c.(*ast.CommClause)
		sc := &selCase{}
		switch comm := cc.Comm.(type) {
		case nil:
			sc.isDefault = true
		case *ast.SendStmt:
			sc.isSend = true
			ch := r.name("c")
			pre = append(pre, &ast.AssignStmt{Lhs: []ast.Expr{ch}, Tok: token.DEFINE, Rhs: []ast.Expr{r.expr(comm.Chan)}})
			sc.ch = ch
			if r.constOrNil(comm.Value) {
				sc.val = comm.Value
			} else {
				v := r.name("v")
				pre = append(pre, &ast.AssignStmt{Lhs: []ast.Expr{v}, Tok: token.DEFINE, Rhs: []ast.Expr{r.expr(comm.Value)}})
				sc.val = v
			}
		case *ast.ExprStmt:
			u, ok := isArrow(comm.X)
			if !ok {
				fatalf("%s: unexpected comm clause", r.fset.Position(comm.Pos()))
			}
			ch := r.name("c")
			pre = append(pre, &ast.AssignStmt{Lhs: []ast.Expr{ch}, Tok: token.DEFINE, Rhs: []ast.Expr{r.expr(u.X)}})
			sc.ch = ch
		case *ast.AssignStmt:
			u, ok := isArrow(comm.Rhs[0])
			if !ok {
				fatalf("%s: unexpected comm clause", r.fset.Position(comm.Pos()))
			}
			ch := r.name("c")
			pre = append(pre, &ast.AssignStmt{Lhs: []ast.Expr{ch}, Tok: token.DEFINE, Rhs: []ast.Expr{r.expr(u.X)}})
			sc.ch = ch
			sc.lhs = comm.Lhs
			sc.tok = comm.Tok
			sc.slot = r.name("r")
		}
		sc.body = cc.Body
		if sc.isDefault {
			def = sc
		} else {
			cases = append(cases, sc)
		}
	}
	// bodies are rewritten after the operands so that temp numbering follows source order
	for _, sc := range cases {
		sc.body = r.stmts(sc.body)
	}
	if def != nil {
		def.body = r.stmts(def.body)
	}
	nc := len(cases)
	for _, sc := range cases {
		if sc.slot != nil {
			pre = append(pre, &ast.AssignStmt{Lhs: []ast.Expr{sc.slot}, Tok: token.DEFINE, Rhs: []ast.Expr{r.call("Slot", sc.ch)}})
		}
	}
	k := r.name("k")
	lit := func(i int) ast.Expr { return &ast.BasicLit{Kind: token.INT, Value: strconv.Itoa(i)} }
	setK := func(i int) ast.Stmt { return &ast.AssignStmt{Lhs: []ast.Expr{k}, Tok: token.ASSIGN, Rhs: []ast.Expr{lit(i)}} }
	comm := func(sc *selCase) ast.Stmt {
		var s ast.Stmt
		switch {
		case sc.isSend:
			s = &ast.SendStmt{Chan: sc.ch, Value: sc.val}
		case sc.slot != nil:
			u := &ast.UnaryExpr{Op: token.ARROW, X: sc.ch}
			r.native[u] = true
			lhs := []ast.Expr{&ast.SelectorExpr{X: sc.slot, Sel: ast.NewIdent("V")}}
			if len(sc.lhs) == 2 {
				lhs = append(lhs, &ast.SelectorExpr{X: sc.slot, Sel: ast.NewIdent("Ok")})
			}
			s = &ast.AssignStmt{Lhs: lhs, Tok: token.ASSIGN, Rhs: []ast.Expr{u}}
		default:
			u := &ast.UnaryExpr{Op: token.ARROW, X: sc.ch}
			r.native[u] = true
			s = &ast.ExprStmt{X: u}
		}
		return s
	}
	pre = append(pre, &ast.AssignStmt{Lhs: []ast.Expr{k}, Tok: token.DEFINE, Rhs: []ast.Expr{&ast.UnaryExpr{Op: token.SUB, X: lit(1)}}})
	if nc > 0 {
		// poll phase
		i, p := r.name("i"), r.name("p")
		var pollCases []ast.Stmt
		for idx, sc := range cases {
			sel := &ast.SelectStmt{Body: &ast.BlockStmt{List: []ast.Stmt{
				&ast.CommClause{Comm: comm(sc), Body: []ast.Stmt{setK(idx)}},
				&ast.CommClause{},
			}}}
			pollCases = append(pollCases, &ast.CaseClause{List: []ast.Expr{lit(idx)}, Body: []ast.Stmt{sel}})
		}
		sw := &ast.SwitchStmt{
			Tag:  &ast.BinaryExpr{X: &ast.ParenExpr{X: &ast.BinaryExpr{X: p, Op: token.ADD, Y: i}}, Op: token.REM, Y: lit(nc)},
			Body: &ast.BlockStmt{List: pollCases},
		}
		loop := &ast.ForStmt{
			Init: &ast.AssignStmt{Lhs: []ast.Expr{i, p}, Tok: token.DEFINE, Rhs: []ast.Expr{lit(0), r.call("SelectPoint", r.pc(n), lit(nc))}},
			Cond: &ast.BinaryExpr{X: &ast.BinaryExpr{X: i, Op: token.LSS, Y: lit(nc)}, Op: token.LAND, Y: &ast.BinaryExpr{X: k, Op: token.LSS, Y: lit(0)}},
			Post: &ast.IncDecStmt{X: i, Tok: token.INC},
			Body: &ast.BlockStmt{List: []ast.Stmt{sw}},
		}
		pre = append(pre, loop)
	} else {
		pre = append(pre, r.callStmt("Point", r.pc(n)))
	}
	// nothing ready
	var none []ast.Stmt
	if def != nil {
		none = []ast.Stmt{setK(nc)}
	} else {
		var blk []ast.Stmt
		for idx, sc := range cases {
			blk = append(blk, &ast.CommClause{Comm: comm(sc), Body: []ast.Stmt{setK(idx)}})
		}
		none = []ast.Stmt{r.callStmt("BlockEnter"), &ast.SelectStmt{Body: &ast.BlockStmt{List: blk}}, r.callStmt("After")}
	}
	pre = append(pre, &ast.IfStmt{Cond: &ast.BinaryExpr{X: k, Op: token.LSS, Y: lit(0)}, Body: &ast.BlockStmt{List: none}})
	pre = append(pre, r.callStmt("Chose", k))
	// dispatch
	var disp []ast.Stmt
	for idx, sc := range cases {
		var body []ast.Stmt
		if sc.slot != nil {
			fields := []string{"V", "Ok"}
			var lhs, rhs []ast.Expr
			for j, l := range sc.lhs {
				if id, ok := l.(*ast.Ident); ok && id.Name == "_" {
					continue
				}
				lhs = append(lhs, l)
				rhs = append(rhs, &ast.SelectorExpr{X: sc.slot, Sel: ast.NewIdent(fields[j])})
			}
			if len(lhs) > 0 {
				body = append(body, &ast.AssignStmt{Lhs: lhs, Tok: sc.tok, Rhs: rhs})
			}
		}
		body = append(body, sc.body...)
		cl := &ast.CaseClause{List: []ast.Expr{lit(idx)}, Body: body}
		if def == nil && idx == nc-1 {
			// last clause is "default" so the switch is a terminating statement whenever the
			// original select was one (functions ending in select{... return ...}).
			cl.List = nil
		}
		disp = append(disp, cl)
	}
	if def != nil {
		disp = append(disp, &ast.CaseClause{Body: def.body})
	}
	pre = append(pre, &ast.SwitchStmt{Tag: k, Body: &ast.BlockStmt{List: disp}})
	return &ast.BlockStmt{List: pre}
}

func (r *rewriter) file(f *ast.File) {
	r.usedVS = false
	r.syncWaitName = ""
	defer func() {
		if r.syncWaitName != "" {
			// keep the import used
			f.Decls = append(f.Decls, &ast.GenDecl{Tok: token.VAR, Specs: []ast.Spec{&ast.ValueSpec{
				Names:  []*ast.Ident{ast.NewIdent("_")},
				Values: []ast.Expr{&ast.SelectorExpr{X: ast.NewIdent(r.syncWaitName), Sel: ast.NewIdent("Wait")}}}}})
		}
	}()
	for _, d := range f.Decls {
		switch n := d.(type) {
		case *ast.FuncDecl:
			if n.Body != nil {
				n.Body.List = r.stmts(n.Body.List)
			}
		case *ast.GenDecl:
			for _, sp := range n.Specs {
				if vsp, ok := sp.(*ast.ValueSpec); ok {
					for i := range vsp.Values {
						vsp.Values[i] = r.expr(vsp.Values[i])
					}
				}
			}
		}
	}
	// imports
	for _, imp := range f.Imports {
		p, _ := strconv.Unquote(imp.Path.Value)
		switch p {
		case "sync":
			imp.Path.Value = strconv.Quote(r.shim + "/vsync")
			if imp.Name == nil {
				imp.Name = ast.NewIdent("sync")
			}
			r.stats["import-sync"]++
		case "sync/atomic":
			imp.Path.Value = strconv.Quote(r.shim + "/vatomic")
			if imp.Name == nil {
				imp.Name = ast.NewIdent("atomic")
			}
			r.stats["import-atomic"]++
		}
	}
	if r.usedVS {
		spec := &ast.ImportSpec{Name: ast.NewIdent(r.vs), Path: &ast.BasicLit{Kind: token.STRING, Value: strconv.Quote(r.shim + "/vsched")}}
		gd := &ast.GenDecl{Tok: token.IMPORT, Specs: []ast.Spec{spec}}
		f.Decls = append([]ast.Decl{gd}, f.Decls...)
		f.Imports = append(f.Imports, spec)
	}
	// keep only comments that can matter to the compiler
	var keep []*ast.CommentGroup
	for _, cg := range f.Comments {
		if cg.End() < f.Package {
			keep = append(keep, cg)
			continue
		}
		for _, c := range cg.List {
			if strings.HasPrefix(c.Text, "//go:") || strings.HasPrefix(c.Text, "// +build") {
				keep = append(keep, &ast.CommentGroup{List: []*ast.Comment{c}})
			}
		}
	}
	f.Comments = keep
}

func main() {
	pkg := flag.String("pkg", "", "import path")
	repo := flag.String("repo", "/repo", "module root")
	out := flag.String("out", "", "output dir")
	shim := flag.String("shim", "github.com/libp2p/go-libp2p/x/verif", "shim import prefix")
	tags := flag.String("tags", "", "build tags")
	ovFlag := flag.String("overlay", "", "overlay json (also used to read sources)")
	test := flag.Bool("test", false, "instrument the package as recompiled for its own test (internal _test.go files included)")
	flag.Parse()
	if *ovFlag != "" {
		b, err := os.ReadFile(*ovFlag)
		if err != nil {
			fatalf("overlay: %v", err)
		}
		var o struct{ Replace map[string]string }
		if err := json.Unmarshal(b, &o); err != nil {
			fatalf("overlay: %v", err)
		}
		overlay = o.Replace
	}
	target, exports := goList(*repo, *pkg, *tags, *ovFlag, *test)
	fset := token.NewFileSet()
	var files []*ast.File
	for _, gf := range target.GoFiles {
		src, err := readSrc(filepath.Join(target.Dir, gf))
		if err != nil {
			fatalf("read: %v", err)
		}
		f, err := parser.ParseFile(fset, filepath.Join(target.Dir, gf), src, parser.ParseComments)
		if err != nil {
			fatalf("parse: %v", err)
		}
		files = append(files, f)
	}
	lookup := func(path string) (io.ReadCloser, error) {
		if m, ok := target.ImportMap[path]; ok {
			path = m
		}
		e, ok := exports[path]
		if !ok {
			return nil, fmt.Errorf("no export data for %s", path)
		}
		return os.Open(e)
	}
	info := &types.Info{Types: map[ast.Expr]types.TypeAndValue{}, Uses: map[*ast.Ident]types.Object{}, Defs: map[*ast.Ident]types.Object{}}
	conf := types.Config{Importer: importer.ForCompiler(fset, "gc", lookup), Error: func(err error) { fmt.Fprintln(os.Stderr, "typecheck:", err) }}
	ipath := target.ImportPath
	if target.ForTest != "" {
		ipath = target.ForTest
	}
	if _, err := conf.Check(ipath, fset, files, info); err != nil {
		fatalf("type check failed: %v", err)
	}
	if err := os.MkdirAll(*out, 0o755); err != nil {
		fatalf("%v", err)
	}
	r := &rewriter{fset: fset, info: info, shim: *shim, vs: "vsched_", native: map[ast.Node]bool{}, stats: map[string]int{}}
	replace := map[string]string{}
	for i, f := range files {
		r.curFile = target.GoFiles[i]
		r.file(f)
		var buf bytes.Buffer
		if err := printer.Fprint(&buf, fset, f); err != nil {
			fatalf("print %s: %v", r.curFile, err)
		}
		dst := filepath.Join(*out, target.GoFiles[i])
		if err := os.WriteFile(dst, buf.Bytes(), 0o644); err != nil {
			fatalf("%v", err)
		}
		replace[filepath.Join(target.Dir, target.GoFiles[i])] = dst
	}
	pcf := filepath.Join(*out, "pcs.json")
	pb, _ := json.Marshal(r.pcs)
	os.WriteFile(pcf, pb, 0o644)
	json.NewEncoder(os.Stdout).Encode(map[string]any{"Replace": replace, "stats": r.stats, "pcs": len(r.pcs), "pctable": pcf})
}
