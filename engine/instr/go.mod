module verifinstr

go 1.25.7
