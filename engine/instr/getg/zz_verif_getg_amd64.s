#include "textflag.h"

// func zzVerifGetg() uintptr
TEXT ·zzVerifGetg(SB),NOSPLIT,$0-8
	MOVQ (TLS), AX
	MOVQ AX, ret+0(FP)
	RET
