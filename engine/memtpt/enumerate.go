// Enumeration driver of the connection-level fault enumeration (see connfault.go).

package memtpt

import (
	"encoding/json"
	"fmt"
	"os"
	"runtime"
	"testing"
	"time"

	"github.com/libp2p/go-libp2p/x/verif/memnet"
	"github.com/libp2p/go-libp2p/x/verif/vrep"
)

// Watchdog aborts the worker (exit 3 = infrastructure, no verdict) when one case does not finish in
// real time: inside a bubble that can only happen when a goroutine blocks on something synctest does not
// own (a mutex held forever, real I/O), which virtual time cannot resolve.
func Watchdog(r *vrep.Result, what *string) (stop func()) {
	tm := time.AfterFunc(240*time.Second, func() {
		buf := make([]byte, 1<<20)
		buf = buf[:runtime.Stack(buf, true)]
		fmt.Fprintf(os.Stderr, "C04 watchdog: case %s did not finish within 240s of real time\n%s\n", *what, buf)
		r.Cap("watchdog: case %s did not finish within 240s of real time (no verdict)", *what)
		r.Flush()
		os.Exit(3)
	})
	return func() { tm.Stop() }
}

// Cases builds the full case list of one configuration from its fault-free dry runs.
func Cases(cfg Config, dry *Result, variants []Variant, extraScenarios, rawDial bool) []Case {
	var cases []Case
	for _, v := range variants {
		add := func(f Fault) { cases = append(cases, Case{Cfg: cfg, Scenario: "echo", Variant: v, Fault: f}) }
		for si, side := range []string{"out", "in"} {
			// one index beyond the dry-run count: the position "after the last call" (usually not reached)
			for k := 0; k <= dry.Ops[si]; k++ {
				for _, io := range IOFaultMenu() {
					add(Fault{Kind: "io", Side: side, K: k, What: io.String()})
				}
				add(Fault{Kind: "cancel", Side: side, K: k})
				add(Fault{Kind: "lnclose", Side: side, K: k})
				add(Fault{Kind: "connclose", Side: side, K: k})
			}
			for _, hook := range memnet.GaterHooks {
				for n := 0; n < dry.GaCalls[si][hook]; n++ {
					add(Fault{Kind: "gater", Side: side, K: n, What: hook})
					add(Fault{Kind: "cancelcall", Side: side, K: n, What: hook})
				}
			}
			for _, call := range memnet.RcmgrCalls {
				for n := 0; n < dry.RcCalls[si][call]; n++ {
					add(Fault{Kind: "rcmgr", Side: side, K: n, What: call})
					add(Fault{Kind: "cancelcall", Side: side, K: n, What: call})
				}
			}
		}
	}
	if rawDial {
		for _, v := range variants {
			for _, w := range []string{"refused", "timeout", "canceled-after-connect"} {
				cases = append(cases, Case{Cfg: cfg, Scenario: "echo", Variant: v, Fault: Fault{Kind: "rawdial", Side: "out", What: w}})
			}
		}
	}
	if extraScenarios {
		for _, s := range []string{"noaccept", "threshold", "threshold-lnclose", "queued-lnclose"} {
			cases = append(cases, Case{Cfg: cfg, Scenario: s, Fault: Fault{Kind: "none"}})
		}
		if !cfg.PSK {
			cases = append(cases, Case{Cfg: cfg, Scenario: "forcepnet", Fault: Fault{Kind: "none"}})
		}
		cases = append(cases, Case{Cfg: cfg, Scenario: "nilpeer", Fault: Fault{Kind: "none"}})
	}
	return cases
}

// EnumOptions selects what Enumerate covers.
type EnumOptions struct {
	Dial           DialFunc  // nil: MirrorDial
	Configs        []Config  // nil: all eight
	Variants       []Variant // nil: quick = default and late Accept, thorough = the cross product of the three switches
	ExtraScenarios bool      // accept-queue timeout, backpressure, listener close with queued connections, forced private network
	RawDialFaults  bool      // the raw dial itself fails (refused, times out, caller gives up as it connects)
}

// IOFaultMenu is the statement's menu; the thorough tier adds the transient (one-shot) errors.
func IOFaultMenu() []memnet.Fault {
	if vrep.Thorough() {
		return append(append([]memnet.Fault(nil), memnet.IOFaults...), memnet.TransientIOFaults...)
	}
	return memnet.IOFaults
}

// AllVariants returns the cross product of the three variant switches.
func AllVariants() []Variant {
	var variants []Variant
	for _, a := range []bool{false, true} {
		for _, b := range []bool{false, true} {
			for _, c := range []bool{false, true} {
				variants = append(variants, Variant{InClosesFirst: a, LateAccept: b, ShortDial: c})
			}
		}
	}
	return variants
}

// Enumerate runs, for every configuration, the fault-free dry runs and then one run per (interception
// point, fault kind) of the dry run, reporting into r (the caller flushes r). Work is split over the shards.
func Enumerate(t *testing.T, r *vrep.Result, o EnumOptions) {
	cur := "-"
	defer Watchdog(r, &cur)()

	if p := vrep.ReplayPath(); p != "" {
		Replay(t, r, p, o.Dial)
		return
	}

	variants := o.Variants
	if variants == nil {
		variants = []Variant{{}, {LateAccept: true}}
		if vrep.Thorough() {
			variants = AllVariants()
		}
	}
	cfgs := o.Configs
	if cfgs == nil {
		cfgs = Configs()
	}
	r.Bounds["configurations"] = fmt.Sprint(cfgs)
	r.Bounds["faults_per_run"] = 1
	r.Bounds["io_faults"] = fmt.Sprint(IOFaultMenu())
	r.Bounds["variants(teardown order, late Accept, short dial timeout)"] = len(variants)
	r.Bounds["scenarios"] = "echo x full fault menu"
	if o.ExtraScenarios {
		r.Bounds["scenarios"] = "echo x full fault menu; noaccept, threshold, threshold-lnclose, queued-lnclose, forcepnet, nilpeer (each fault-free: the scenario is the fault)"
	}

	shard, nshards := vrep.Shard()
	deadline := vrep.Deadline()
	distinct := map[string]struct{}{}
	classes := map[string]struct{}{}
	idx := 0
	notReached := 0
	defer func() { r.Distinct = int64(len(distinct)) }()
	for _, cfg := range cfgs {
		for vi, variant := range variants {
			// fault-free dry runs: the baseline must succeed, be clean, and count the interception points
			// (per variant: the timing of Accept changes the interleaving of the calls)
			var dry *Result
			stable := true
			reps := 1
			if vi == 0 {
				reps = 2 // the second run checks that the sequence of I/O calls is reproducible
			}
			for rep := 0; rep < reps; rep++ {
				cur = fmt.Sprintf("%s%s dry run %d", cfg, variant, rep)
				d := RunCase(t, Case{Cfg: cfg, Scenario: "echo", Variant: variant, Fault: Fault{Kind: "none"}}, o.Dial)
				r.Executions++
				if d.Infra != "" {
					r.Cap("configuration %s%s: dry run failed for a harness reason: %s", cfg, variant, d.Infra)
					dry = nil
					break
				}
				if d.OutStage != "ok" || d.InStage != "accepted" || d.Post != "echo-ok" {
					r.Violate("baseline-failed", fmt.Sprintf("%s%s: the fault-free scenario did not succeed: out=%s (%s) in=%s post=%s", cfg, variant, d.OutStage, d.OutErr, d.InStage, d.Post), d)
					dry = nil
					break
				}
				for _, v := range d.Vios {
					r.Violate(v.Key+"/baseline", fmt.Sprintf("%s%s fault-free: %s", cfg, variant, v.Desc), d)
				}
				if dry != nil && (dry.Kinds != d.Kinds) {
					stable = false
				}
				dry = d
			}
			if dry == nil {
				continue
			}
			r.Outcome(dry.coarse())
			if shard == 0 && vi == 0 {
				r.Note("%s: dry run: %d raw I/O calls on the outbound end (%s), %d on the inbound end (%s); rcmgr calls out=%v in=%v; gater calls out=%v in=%v; op sequence reproducible=%v",
					cfg, dry.Ops[0], dry.Kinds[0], dry.Ops[1], dry.Kinds[1], dry.RcCalls[0], dry.RcCalls[1], dry.GaCalls[0], dry.GaCalls[1], stable)
				if cfg == cfgs[0] {
					dry.Trace = nil
					r.Sample(dry)
				}
			}
			for _, cs := range Cases(cfg, dry, []Variant{variant}, o.ExtraScenarios && vi == 0, o.RawDialFaults) {
				idx++
				if idx%nshards != shard {
					continue
				}
				if time.Now().After(deadline) {
					r.Cap("deadline reached at case %d (%s)", idx, cs)
					return
				}
				cur = cs.String()
				res := RunCase(t, cs, o.Dial)
				r.Executions++
				if res.Infra != "" {
					r.Cap("case %s: harness problem, no verdict: %s", cs, res.Infra)
					continue
				}
				if cs.Fault.Kind != "none" && !res.Fired {
					notReached++
					r.Outcome(cs.Scenario + "|" + cs.Fault.Kind + "|fault position not reached")
				} else {
					distinct[cs.String()] = struct{}{}
					classes[res.class()] = struct{}{}
					r.Outcome(res.coarse())
				}
				for _, v := range res.Vios {
					fmt.Printf("C04-VIO %s  %s  out=%s in=%s post=%s\n", v.Key, cs, res.OutStage, res.InStage, res.Post)
					r.Violate(v.Key, fmt.Sprintf("%s: %s", cs, v.Desc), res)
				}
				if len(res.Vios) == 0 && res.Fired && len(r.Samples) < 6 && idx%97 == shard {
					res.Trace = nil
					r.Sample(res)
				}
			}
		}
	}
	r.Note("cases whose fault position was not reached (counted as executions, not as distinct cases): %d; distinct (configuration, variant, fault kind, end, outbound stage, inbound stage, result) classes in this shard: %d", notReached, len(classes))
}

// Replay re-executes exactly the case stored in a replay file and prints its trace.
func Replay(t *testing.T, r *vrep.Result, path string, dial DialFunc) {
	if sh, _ := vrep.Shard(); sh != 0 {
		return // one worker replays
	}
	b, err := os.ReadFile(path)
	if err != nil {
		r.Cap("replay: %v", err)
		return
	}
	var f struct {
		Part   string `json:"part"`
		Replay struct {
			Case Case `json:"case"`
		} `json:"replay"`
	}
	if err := json.Unmarshal(b, &f); err != nil {
		r.Cap("replay: %v", err)
		return
	}
	if f.Part != "" && f.Part != r.Part {
		fmt.Printf("C04 replay: %s belongs to part %q, not to %q - nothing to do here\n", path, f.Part, r.Part)
		return
	}
	res := RunCase(t, f.Replay.Case, dial)
	r.Executions++
	r.Distinct = 1
	fmt.Printf("C04 replay of %s\n  out=%s (%s) in=%s post=%s fired=%v\n  out end: %d ops %s\n  in end:  %d ops %s\n", f.Replay.Case, res.OutStage, res.OutErr,
		res.InStage, res.Post, res.Fired, res.Ops[0], res.Kinds[0], res.Ops[1], res.Kinds[1])
	for _, l := range res.Trace {
		fmt.Println("  " + l)
	}
	for _, v := range res.Vios {
		fmt.Printf("  VIOLATION %s: %s\n", v.Key, v.Desc)
		r.Violate(v.Key, v.Desc, res)
	}
	r.Outcome(res.class())
	r.Sample(res)
}
