package memtpt

import (
	"context"
	"errors"
	"fmt"
	"net"
	"sort"
	"sync"
	"syscall"

	"github.com/libp2p/go-libp2p/core/network"
	"github.com/libp2p/go-libp2p/core/peer"
	"github.com/libp2p/go-libp2p/core/transport"
	"github.com/libp2p/go-libp2p/x/verif/memnet"
	ma "github.com/multiformats/go-multiaddr"
	manet "github.com/multiformats/go-multiaddr/net"
)

// Net is the in-memory "network" a set of Transports dial and listen on.
type Net struct {
	mu        sync.Mutex
	listeners map[string]*memnet.Listener
	pairs     []*Pair
	onPair    func(*Pair)
	nextPort  int
}

// Pair is one raw connection created by a dial.
type Pair struct {
	Index    int
	Out, In  *memnet.Conn // dialer's end, listener's end
	From, To peer.ID
	Listener *memnet.Listener
}

func NewNet() *Net { return &Net{listeners: map[string]*memnet.Listener{}, nextPort: 50000} }

// SetOnPair installs a hook that sees every raw connection pair before either end is used (arm faults here).
func (n *Net) SetOnPair(f func(*Pair)) {
	n.mu.Lock()
	n.onPair = f
	n.mu.Unlock()
}

// Pairs returns every raw connection pair created so far.
func (n *Net) Pairs() []*Pair {
	n.mu.Lock()
	defer n.mu.Unlock()
	return append([]*Pair(nil), n.pairs...)
}

// OpenListeners returns the addresses of the raw listeners whose owner has not called Close, sorted.
func (n *Net) OpenListeners() []string {
	n.mu.Lock()
	defer n.mu.Unlock()
	var out []string
	for a, l := range n.listeners {
		if l.CloseCalls() == 0 {
			out = append(out, a)
		}
	}
	sort.Strings(out)
	return out
}

// Transport is a transport.Transport over Net that does around the REAL upgrader exactly what the TCP
// transport does: OpenConnection, SetPeer, raw dial, Upgrade, connScope.Done() on failure; Listen wraps an
// in-memory listener with UpgradeListener.
type Transport struct {
	net  *Net
	side *Side
}

var _ transport.Transport = (*Transport)(nil)

func NewTransport(n *Net, s *Side) *Transport { return &Transport{net: n, side: s} }

func (t *Transport) String() string { return "memtpt(" + t.side.Name + ")" }

func (t *Transport) CanDial(addr ma.Multiaddr) bool {
	if _, err := addr.ValueForProtocol(ma.P_CIRCUIT); err == nil {
		return false
	}
	_, err := addr.ValueForProtocol(ma.P_TCP)
	return err == nil
}

func (t *Transport) Protocols() []int { return []int{ma.P_TCP} }
func (t *Transport) Proxy() bool      { return false }

func (t *Transport) Dial(ctx context.Context, raddr ma.Multiaddr, p peer.ID) (transport.CapableConn, error) {
	connScope, err := t.side.RM.OpenConnection(network.DirOutbound, true, raddr)
	if err != nil {
		return nil, err
	}
	c, err := t.dialWithScope(ctx, raddr, p, connScope)
	if err != nil {
		connScope.Done()
		return nil, err
	}
	return c, nil
}

func (t *Transport) dialWithScope(ctx context.Context, raddr ma.Multiaddr, p peer.ID, connScope network.ConnManagementScope) (transport.CapableConn, error) {
	if err := connScope.SetPeer(p); err != nil {
		return nil, err
	}
	raw, err := t.rawDial(ctx, raddr, p)
	if err != nil {
		return nil, err
	}
	return t.side.Upgrader.Upgrade(ctx, t, raw, network.DirOutbound, p, connScope)
}

func (t *Transport) rawDial(ctx context.Context, raddr ma.Multiaddr, p peer.ID) (manet.Conn, error) {
	if err := ctx.Err(); err != nil {
		return nil, err
	}
	n := t.net
	n.mu.Lock()
	l := n.listeners[raddr.String()]
	if l == nil {
		n.mu.Unlock()
		return nil, &net.OpError{Op: "dial", Net: "tcp", Err: syscall.ECONNREFUSED}
	}
	ip, _ := manet.ToIP(t.side.Addr)
	laddr := ma.StringCast(fmt.Sprintf("/ip4/%s/tcp/%d", ip, n.nextPort))
	n.nextPort++
	pr := &Pair{Index: len(n.pairs), From: t.side.ID, To: p, Listener: l}
	pr.Out, pr.In = memnet.NewPair(memnet.PairConfig{NameA: fmt.Sprintf("%s->#%d", t.side.Name, pr.Index), NameB: fmt.Sprintf("#%d->%s", pr.Index, t.side.Name),
		AddrA: laddr, AddrB: raddr})
	n.pairs = append(n.pairs, pr)
	hook := n.onPair
	n.mu.Unlock()
	if hook != nil {
		hook(pr)
	}
	if !l.Push(pr.In) {
		return nil, &net.OpError{Op: "dial", Net: "tcp", Err: syscall.ECONNREFUSED}
	}
	return pr.Out, nil
}

func (t *Transport) Listen(laddr ma.Multiaddr) (transport.Listener, error) {
	n := t.net
	n.mu.Lock()
	if old := n.listeners[laddr.String()]; old != nil && old.CloseCalls() == 0 {
		n.mu.Unlock()
		return nil, errors.New("address already in use")
	}
	ml := memnet.Listen(laddr)
	n.listeners[laddr.String()] = ml
	n.mu.Unlock()
	return t.side.Upgrader.UpgradeListener(t, ml), nil
}
