// Package memtpt builds the REAL connection pipeline of go-libp2p (upgrader with Noise or TLS, yamux,
// optional private-network PSK, real resource manager behind the refusing decorator, scripted gater) on top
// of the in-memory connections of package memnet. It imports the upgrader, so white-box harnesses of the
// upgrader package itself must live in the external test package (package upgrader_test).
package memtpt

import (
	"fmt"
	"net"
	"sync"
	"time"

	"github.com/libp2p/go-libp2p/core/crypto"
	"github.com/libp2p/go-libp2p/core/network"
	"github.com/libp2p/go-libp2p/core/peer"
	ipnet "github.com/libp2p/go-libp2p/core/pnet"
	"github.com/libp2p/go-libp2p/core/sec"
	"github.com/libp2p/go-libp2p/core/transport"
	rcmgr "github.com/libp2p/go-libp2p/p2p/host/resource-manager"
	"github.com/libp2p/go-libp2p/p2p/muxer/yamux"
	"github.com/libp2p/go-libp2p/p2p/net/upgrader"
	"github.com/libp2p/go-libp2p/p2p/security/noise"
	libp2ptls "github.com/libp2p/go-libp2p/p2p/security/tls"
	"github.com/libp2p/go-libp2p/x/rate"
	"github.com/libp2p/go-libp2p/x/verif/memnet"
	ma "github.com/multiformats/go-multiaddr"
)

// Config selects one pipeline configuration.
type Config struct {
	Sec      string `json:"sec"`       // "noise" or "tls"
	PSK      bool   `json:"psk"`       // private network with a pre-shared key
	EarlyMux bool   `json:"early_mux"` // muxer chosen inside the security handshake (else multistream-select afterwards)
}

func (c Config) String() string {
	s := c.Sec
	if c.PSK {
		s += "+psk"
	}
	if c.EarlyMux {
		s += "+earlymux"
	} else {
		s += "+mssmux"
	}
	return s
}

// Configs returns {noise, tls} x {no PSK, PSK} x {multistream muxer negotiation, early muxer negotiation}.
func Configs() []Config {
	var out []Config
	for _, s := range []string{"noise", "tls"} {
		for _, p := range []bool{false, true} {
			for _, e := range []bool{false, true} {
				out = append(out, Config{Sec: s, PSK: p, EarlyMux: e})
			}
		}
	}
	return out
}

// Side is one participant: identity, real resource manager + decorator, gater, real upgrader.
type Side struct {
	Name     string
	Key      crypto.PrivKey
	ID       peer.ID
	RM       *memnet.Rcmgr // hand this to the code under test
	Gater    *memnet.Gater
	Upgrader transport.Upgrader
	Addr     ma.Multiaddr
	PSK      ipnet.PSK
	Muxer    *RecMuxer // recording decorator around the real yamux transport
}

// AcceptTimeout is the upgrader's accept timeout (its default value, set explicitly so that the harness
// knows it).
const AcceptTimeout = 15 * time.Second

// MustAddr parses a multiaddr literal.
func MustAddr(s string) ma.Multiaddr { return ma.StringCast(s) }

// FixedPSK is the 32-byte pre-shared key used by every PSK configuration.
var FixedPSK = ipnet.PSK("0123456789abcdef0123456789abcdef")

// NewKey derives a deterministic Ed25519 identity from (label, seed).
func NewKey(label string, seed int64) (crypto.PrivKey, peer.ID, error) {
	priv, _, err := crypto.GenerateEd25519Key(memnet.NewSeedReader(label, seed))
	if err != nil {
		return nil, "", err
	}
	id, err := peer.IDFromPrivateKey(priv)
	return priv, id, err
}

// NewRealRcmgr creates a real resource manager with infinite limits, no metrics and connection rate
// limiting switched off. Inside a synctest bubble its background goroutine belongs to the bubble: Close it.
func NewRealRcmgr() (network.ResourceManager, error) {
	return rcmgr.NewResourceManager(rcmgr.NewFixedLimiter(rcmgr.InfiniteLimits), rcmgr.WithMetricsDisabled(),
		rcmgr.WithConnRateLimiters(&rate.Limiter{}))
}

// NewSide builds a participant. Must be called inside the bubble when one is used.
func NewSide(name string, cfg Config, seed int64, addr ma.Multiaddr, opts ...upgrader.Option) (*Side, error) {
	priv, id, err := NewKey("memtpt-"+name, seed)
	if err != nil {
		return nil, err
	}
	real, err := NewRealRcmgr()
	if err != nil {
		return nil, err
	}
	s := &Side{Name: name, Key: priv, ID: id, RM: memnet.NewRcmgr(real), Gater: memnet.NewGater(), Addr: addr}
	if cfg.PSK {
		s.PSK = FixedPSK
	}
	s.Muxer = &RecMuxer{Real: yamux.DefaultTransport}
	opts = append([]upgrader.Option{upgrader.WithAcceptTimeout(AcceptTimeout)}, opts...)
	s.Upgrader, err = NewUpgrader(cfg, priv, s.PSK, s.RM, s.Gater, s.Muxer, opts...)
	if err != nil {
		real.Close()
		return nil, err
	}
	return s, nil
}

// NewUpgrader builds the real upgrader for a configuration.
func NewUpgrader(cfg Config, priv crypto.PrivKey, psk ipnet.PSK, rm network.ResourceManager, gater *memnet.Gater, mux network.Multiplexer, opts ...upgrader.Option) (transport.Upgrader, error) {
	if mux == nil {
		mux = yamux.DefaultTransport
	}
	muxers := []upgrader.StreamMuxer{{ID: yamux.ID, Muxer: mux}}
	var secMuxers []upgrader.StreamMuxer
	if cfg.EarlyMux {
		secMuxers = muxers
	}
	var st sec.SecureTransport
	var err error
	switch cfg.Sec {
	case "noise":
		st, err = noise.New(noise.ID, priv, secMuxers)
	case "tls":
		st, err = libp2ptls.New(libp2ptls.ID, priv, secMuxers)
	default:
		err = fmt.Errorf("unknown security transport %q", cfg.Sec)
	}
	if err != nil {
		return nil, err
	}
	if gater == nil {
		return upgrader.New([]sec.SecureTransport{st}, muxers, psk, rm, nil, opts...)
	}
	return upgrader.New([]sec.SecureTransport{st}, muxers, psk, rm, gater, opts...)
}

// RecMuxer decorates a real stream muxer: it records every NewConn call (the last step of an upgrade) and
// keeps the resulting muxed connections so that a harness can tell "the upgrade completed on this side"
// and ask whether the session is still open. All work is done by the real muxer.
type RecMuxer struct {
	Real network.Multiplexer

	mu    sync.Mutex
	calls int
	conns []network.MuxedConn
	at    []time.Time // when each of conns was created
	errs  []error
}

func (m *RecMuxer) NewConn(c net.Conn, isServer bool, scope network.PeerScope) (network.MuxedConn, error) {
	mc, err := m.Real.NewConn(c, isServer, scope)
	m.mu.Lock()
	m.calls++
	if err == nil {
		m.conns = append(m.conns, mc)
		m.at = append(m.at, time.Now())
	} else {
		m.errs = append(m.errs, err)
	}
	m.mu.Unlock()
	return mc, err
}

// Conns returns the muxed connections created so far.
func (m *RecMuxer) Conns() []network.MuxedConn {
	m.mu.Lock()
	defer m.mu.Unlock()
	return append([]network.MuxedConn(nil), m.conns...)
}

// CreatedAt returns the creation times of Conns().
func (m *RecMuxer) CreatedAt() []time.Time {
	m.mu.Lock()
	defer m.mu.Unlock()
	return append([]time.Time(nil), m.at...)
}

// Calls returns how often NewConn was called.
func (m *RecMuxer) Calls() int {
	m.mu.Lock()
	defer m.mu.Unlock()
	return m.calls
}
