package memtpt

// Connection-level fault enumeration for property C04 ("every failed or finished connection releases all it
// acquired"), shared by the harness parts that drive the upgrader directly and through the real TCP transport.
//
// Two REAL upgraders (real Noise / TLS, real yamux, optional PSK, a real resource manager behind a refusing
// decorator, a scripted gater) are joined by an in-memory connection pair (x/verif/memnet) inside a
// testing/synctest bubble. One run = one scenario with at most one fault; after every run the audit of the
// statement is evaluated on BOTH sides:
//
//	(i)   system / transient / every listed peer, protocol, service scope == value before the attempt
//	(ii)  the raw connection handed to the code under test observed Close
//	(iii) no goroutine of the bubble is left once listeners and resource managers are shut down

import (
	"context"
	"errors"
	"fmt"
	"io"
	"net"
	"runtime"
	"sort"
	"strings"
	"sync"
	"syscall"
	"testing"
	"testing/synctest"
	"time"

	"github.com/libp2p/go-libp2p/core/network"
	"github.com/libp2p/go-libp2p/core/peer"
	ipnet "github.com/libp2p/go-libp2p/core/pnet"
	"github.com/libp2p/go-libp2p/core/transport"
	"github.com/libp2p/go-libp2p/p2p/net/upgrader"
	"github.com/libp2p/go-libp2p/x/verif/memnet"
	"github.com/libp2p/go-libp2p/x/verif/vrep"
	ma "github.com/multiformats/go-multiaddr"
)

// ThresholdCount, when set by a white-box H of the upgrader package, reads the listener's backpressure
// counter (diagnostics only).
var ThresholdCount func(transport.Listener) (int, bool)

// Seed feeds the deterministic identities.
var Seed = vrep.Seed()

const (
	StepTimeout = 30 * time.Second // virtual: how long a H step (Close, ...) may block
	Settle      = 3 * time.Minute  // virtual: longer than every deadline of the pipeline (accept 15s, negotiate 60s, yamux keep-alive 30s + write timeout 10s, TLS close-notify 5s)
)

var (
	AddrOut = ma.StringCast("/ip4/10.1.1.1/tcp/4001")
	AddrIn  = ma.StringCast("/ip4/10.2.2.2/tcp/4002")
)

// ---------- cases ----------

type Fault struct {
	Kind string `json:"kind"`           // none | io | cancel | lnclose | connclose | gater | rcmgr | cancelcall | rawdial
	Side string `json:"side,omitempty"` // out | in: the raw end whose op index triggers, resp. the side whose gater / resource manager is scripted
	K    int    `json:"k"`              // I/O operation index on that end, resp. n-th call
	What string `json:"what,omitempty"` // I/O fault name, gater hook, resource-manager call kind, raw-dial outcome (refused | timeout | canceled-after-connect)
}

func (f Fault) String() string {
	if f.Kind == "none" || f.Kind == "" {
		return "none"
	}
	s := f.Kind
	if f.What != "" {
		s += ":" + f.What
	}
	return fmt.Sprintf("%s@%s#%d", s, f.Side, f.K)
}

// class of the fault without the position
func (f Fault) class() string {
	if f.Kind == "none" || f.Kind == "" {
		return "none"
	}
	s := f.Kind
	if f.What != "" {
		s += ":" + f.What
	}
	return s + "@" + f.Side
}

type Variant struct {
	InClosesFirst bool `json:"in_closes_first,omitempty"` // teardown order of the two upgraded connections
	LateAccept    bool `json:"late_accept,omitempty"`     // Accept is only called 2s after the dial started
	ShortDial     bool `json:"short_dial,omitempty"`      // outbound context expires before (10s) instead of after (20s) the accept timeout
}

func (v Variant) String() string {
	s := ""
	if v.InClosesFirst {
		s += "+inclosesfirst"
	}
	if v.LateAccept {
		s += "+lateaccept"
	}
	if v.ShortDial {
		s += "+shortdial"
	}
	return s
}

type Case struct {
	Cfg      Config  `json:"cfg"`
	Scenario string  `json:"scenario"`
	Variant  Variant `json:"variant"`
	Fault    Fault   `json:"fault"`
}

func (c Case) String() string {
	return fmt.Sprintf("%s/%s%s/%s", c.Cfg, c.Scenario, c.Variant, c.Fault)
}

type Scenario struct {
	NConns          int
	AcceptAfter     time.Duration // <0: never call Accept; 0: acceptor runs from the start; >0: Accept is first called after this delay
	QueueLen        int           // override of upgrader.AcceptQueueLength (0: default)
	CloseListenerAt time.Duration // >0: the listener is closed at this (virtual) time
	ForcePNet       bool          // ipnet.ForcePrivateNetwork = true
	NilPeer         bool          // the dialling side calls Upgrade with an empty expected peer (refused with ErrNilPeer)
}

// nilPeerDial: set for the duration of a run of a NilPeer scenario (runs are sequential within a process).
var nilPeerDial bool

var Scenarios = map[string]Scenario{
	// upgrade both ends, one yamux stream, echo, close both connections, close the listener
	"echo": {NConns: 1},
	// accept-queue timeout: nobody calls Accept until well after acceptTimeout
	"noaccept": {NConns: 1, AcceptAfter: 25 * time.Second},
	// backpressure: queue length 2, three dials, nobody accepts until every queued connection has timed out
	"threshold": {NConns: 3, QueueLen: 2, AcceptAfter: 45 * time.Second},
	// the listener is closed while two upgraded connections wait in the queue and a third waits for the threshold
	"threshold-lnclose": {NConns: 3, QueueLen: 2, AcceptAfter: -1, CloseListenerAt: 5 * time.Second},
	// the listener is closed while upgraded connections wait to be accepted
	"queued-lnclose": {NConns: 2, AcceptAfter: -1, CloseListenerAt: 5 * time.Second},
	// private networks forced by the environment, no PSK configured
	"forcepnet": {NConns: 1, ForcePNet: true},
	// an outbound upgrade without an expected peer: refused before anything is negotiated - the raw connection that was
	// handed to Upgrade must still be closed
	"nilpeer": {NConns: 1, NilPeer: true},
}

// ---------- result of one run ----------

type Vio struct {
	Key  string `json:"key"`
	Desc string `json:"desc"`
}

type Result struct {
	Case     Case              `json:"case"`
	OutStage string            `json:"out_stage"` // where the outbound upgrade stopped ("ok" = upgraded)
	InStage  string            `json:"in_stage"`  // furthest milestone of the inbound side
	Post     string            `json:"post"`      // what happened on the upgraded connection
	OutErr   string            `json:"out_err,omitempty"`
	Ops      [2]int            `json:"ops"`   // raw I/O calls seen on the out / in end of the first pair
	Kinds    [2]string         `json:"kinds"` // their kinds (R/W)
	RcCalls  [2]map[string]int `json:"rcmgr_calls"`
	GaCalls  [2]map[string]int `json:"gater_calls"`
	Fired    bool              `json:"fault_fired"`
	Vios     []Vio             `json:"violations,omitempty"`
	Infra    string            `json:"infra,omitempty"` // harness-level problem: no verdict
	Trace    []string          `json:"trace,omitempty"`
}

func (r *Result) class() string {
	return fmt.Sprintf("%s|%s%s|%s|out=%s|in=%s|%s", r.Case.Cfg, r.Case.Scenario, r.Case.Variant, r.Case.Fault.class(), r.OutStage, r.InStage, r.Post)
}

// coarse: the class without configuration, variant and end (keeps the evidence histogram readable)
func (r *Result) coarse() string {
	f := r.Case.Fault
	k := f.Kind
	if f.What != "" {
		k += ":" + f.What
	}
	if k == "" {
		k = "none"
	}
	return fmt.Sprintf("%s|%s|out=%s|in=%s|%s", r.Case.Scenario, k, r.OutStage, r.InStage, r.Post)
}

// ---------- stub transport ----------

type StubTransport struct{}

func (StubTransport) Dial(context.Context, ma.Multiaddr, peer.ID) (transport.CapableConn, error) {
	return nil, errors.New("stub")
}
func (StubTransport) CanDial(ma.Multiaddr) bool                       { return false }
func (StubTransport) Listen(ma.Multiaddr) (transport.Listener, error) { return nil, errors.New("stub") }
func (StubTransport) Protocols() []int                                { return []int{ma.P_TCP} }
func (StubTransport) Proxy() bool                                     { return false }
func (StubTransport) String() string                                  { return "memtpt" }

// ---------- one run ----------

// Attempt is one outbound dial of a run.
type Attempt struct {
	Index     int
	COut, CIn *memnet.Conn
	RawFault  string // "" or the raw-dial outcome to simulate (refused | timeout | canceled-after-connect)
	Dialed    bool   // the raw connection was "dialed": CIn was pushed to the listener, COut handed to the code under test
	conn      transport.CapableConn
	err       error
	stage     string
	cancel    context.CancelFunc
	done      chan struct{}
}

// Env is what a DialFunc gets to work with.
type Env struct {
	Out, In *Side
	ML      *memnet.Listener // the inbound side's raw listener
	Trace   func(f string, a ...any)
}

// RawDial is the harness's stand-in for the raw network dial: it hands out the outbound end of the attempt's
// pair (putting the inbound end into the listener's backlog), or fails the way the attempt's RawFault says.
// A DialFunc calls it exactly where the code under test would dial the socket.
func (e *Env) RawDial(ctx context.Context, a *Attempt) (*memnet.Conn, error) {
	switch a.RawFault {
	case "refused":
		return nil, &net.OpError{Op: "dial", Net: "tcp", Addr: a.COut.RemoteAddr(), Err: syscall.ECONNREFUSED}
	case "timeout":
		<-ctx.Done()
		return nil, &net.OpError{Op: "dial", Net: "tcp", Addr: a.COut.RemoteAddr(), Err: ctx.Err()}
	}
	a.Dialed = true
	e.ML.Push(a.CIn)
	if a.RawFault == "canceled-after-connect" && a.cancel != nil {
		a.cancel() // the socket is connected, but the caller gave up at that very moment
	}
	return a.COut, nil
}

// DialFunc performs the outbound side of one attempt and returns the upgraded connection. stage may name
// the stage at which it stopped (otherwise it is derived from the error).
type DialFunc func(ctx context.Context, e *Env, a *Attempt) (c transport.CapableConn, stage string, err error)

// MirrorDial does, step by step, what p2p/transport/tcp's DialWithUpdates / dialWithScope do around the
// upgrader: OpenConnection, SetPeer, raw dial, Upgrade, and connScope.Done() when anything failed.
func MirrorDial(ctx context.Context, e *Env, a *Attempt) (transport.CapableConn, string, error) {
	connScope, err := e.Out.RM.OpenConnection(network.DirOutbound, true, AddrIn)
	if err != nil {
		return nil, "", err
	}
	c, err := func() (transport.CapableConn, error) {
		if err := connScope.SetPeer(e.In.ID); err != nil {
			return nil, err
		}
		raw, err := e.RawDial(ctx, a)
		if err != nil {
			return nil, err
		}
		if nilPeerDial {
			return e.Out.Upgrader.Upgrade(ctx, StubTransport{}, raw, network.DirOutbound, "", connScope)
		}
		return e.Out.Upgrader.Upgrade(ctx, StubTransport{}, raw, network.DirOutbound, e.In.ID, connScope)
	}()
	if err != nil {
		connScope.Done()
		return nil, "", err
	}
	return c, "", nil
}

// Yield lets a goroutine that was just started (an asynchronous Close) run as far as it can before the
// caller carries on: the workers run with GOMAXPROCS=1, so every Gosched hands the processor to the other
// runnable goroutines. It never blocks, so it is safe while the caller holds locks of the code under test.
func Yield() {
	for i := 0; i < 200; i++ {
		runtime.Gosched()
	}
}

// H collects the trace and the violations of one run and runs harness steps under a (virtual) timeout.
type H struct {
	mu       sync.Mutex
	start    time.Time
	TraceLog []string
	Vios     []Vio
	Hung     []string // steps that did not return
	fired    bool
}

func NewH() *H { return &H{start: time.Now()} }

func (h *H) Trace(f string, a ...any) {
	h.mu.Lock()
	h.TraceLog = append(h.TraceLog, fmt.Sprintf("[%6.2fs] ", time.Since(h.start).Seconds())+fmt.Sprintf(f, a...))
	h.mu.Unlock()
}

func (h *H) Vio(key, f string, a ...any) {
	h.mu.Lock()
	h.Vios = append(h.Vios, Vio{Key: key, Desc: fmt.Sprintf(f, a...)})
	h.mu.Unlock()
}

// MarkFired records that the armed fault actually took effect.
func (h *H) MarkFired() {
	h.mu.Lock()
	h.fired = true
	h.mu.Unlock()
}

func (h *H) Fired() bool {
	h.mu.Lock()
	defer h.mu.Unlock()
	return h.fired
}

// Step runs f in its own goroutine and waits at most StepTimeout (virtual). A step that does not return
// leaves its goroutine behind, which the goroutine audit reports together with its stack.
func (h *H) Step(name string, f func()) bool {
	done := make(chan struct{})
	go func() {
		defer close(done)
		f()
	}()
	select {
	case <-done:
		return true
	case <-time.After(StepTimeout):
		h.Trace("step %q still blocked after %v", name, StepTimeout)
		h.mu.Lock()
		h.Hung = append(h.Hung, name)
		h.mu.Unlock()
		return false
	}
}

// AuditGoroutines is audit (iii): call it after everything that legitimately lives on was shut down and
// virtual time has passed every deadline. Whatever goroutine of the bubble is left (other than the caller)
// is reported. Returns true if the bubble is clean.
func (h *H) AuditGoroutines(context string) bool {
	synctest.Wait()
	stacks, _ := memnet.BubbleGoroutines()
	if len(stacks) == 0 {
		return true
	}
	sigs := map[string]struct{}{}
	for _, st := range stacks {
		sigs[leakSig(st)] = struct{}{}
	}
	var l []string
	for s := range sigs {
		l = append(l, s)
	}
	sort.Strings(l)
	var sb strings.Builder
	for i, st := range stacks {
		if i == 4 {
			fmt.Fprintf(&sb, "\n... and %d more", len(stacks)-4)
			break
		}
		sb.WriteString("\n--- " + memnet.TopFrames(st, 8))
	}
	h.mu.Lock()
	hung := append([]string(nil), h.Hung...)
	h.mu.Unlock()
	h.Vio("goroutine-left/"+l[0], "%d goroutine(s) started for the attempt are still blocked after %s and %v of virtual time passed (harness steps that did not return: %v):%s",
		len(stacks), context, Settle, hung, sb.String())
	return false
}

func OutStage(err error) string {
	if err == nil {
		return "ok"
	}
	s := err.Error()
	st := "other"
	switch {
	case errors.Is(err, ipnet.ErrNotInPrivateNetwork):
		st = "pnet"
	case errors.Is(err, upgrader.ErrNilPeer):
		st = "nilpeer"
	case strings.Contains(s, "memnet: refusing OpenConnection"):
		st = "refused-openconnection"
	case strings.Contains(s, "memnet: refusing SetPeer"):
		st = "refused-setpeer"
	case strings.Contains(s, "connection refused"):
		st = "rawdial-refused"
	case strings.Contains(s, "dial tcp"):
		st = "rawdial"
	case strings.Contains(s, "failed to setup private network protector"):
		st = "pnet-setup"
	case strings.Contains(s, "failed to negotiate security protocol"):
		st = "security"
	case strings.Contains(s, "gater rejected connection"):
		st = "gater"
	case strings.Contains(s, "resource manager connection with peer"):
		st = "rcmgr-setpeer"
	case strings.Contains(s, "failed to negotiate stream multiplexer"):
		st = "muxer"
	}
	if errors.Is(err, context.Canceled) {
		st += "+canceled"
	} else if errors.Is(err, context.DeadlineExceeded) {
		st += "+deadline"
	}
	return st
}

// inStage: the furthest milestone the inbound side reached, read off the decorators' call counters.
func inStage(in *Side, accepted int) string {
	rc, ga := in.RM.Counts(), in.Gater.Counts()
	switch {
	case accepted > 0:
		return "accepted"
	case len(in.Muxer.Conns()) > 0:
		return "upgraded" // the inbound upgrade completed but Accept never returned the connection
	case rc[memnet.CallSetPeer] > 0:
		return "setpeer"
	case ga[memnet.HookSecured] > 0:
		return "secured"
	case rc[memnet.CallOpenConnection] > 0:
		return "opened"
	case ga[memnet.HookAccept] > 0:
		return "gated"
	}
	return "nothing"
}

var echoPayload = []byte("c04-ping")

// serveEcho echoes on every stream the peer opens on c until the connection dies.
func serveEcho(h *H, c transport.CapableConn) {
	for {
		s, err := c.AcceptStream()
		if err != nil {
			return
		}
		go func() {
			s.SetDeadline(time.Now().Add(10 * time.Second))
			buf := make([]byte, len(echoPayload))
			if _, err := io.ReadFull(s, buf); err != nil {
				h.Trace("echo server: read: %v", err)
				s.Reset()
				return
			}
			if _, err := s.Write(buf); err != nil {
				h.Trace("echo server: write: %v", err)
				s.Reset()
				return
			}
			s.Close()
		}()
	}
}

// doEcho opens one stream on c, sends the payload and expects it back.
func doEcho(h *H, ctx context.Context, c transport.CapableConn) string {
	octx, cancel := context.WithTimeout(ctx, 10*time.Second)
	defer cancel()
	s, err := c.OpenStream(octx)
	if err != nil {
		h.Trace("OpenStream: %v", err)
		return "open-stream-failed"
	}
	s.SetDeadline(time.Now().Add(10 * time.Second))
	if _, err := s.Write(echoPayload); err != nil {
		h.Trace("stream write: %v", err)
		s.Reset()
		return "stream-write-failed"
	}
	buf := make([]byte, len(echoPayload))
	if _, err := io.ReadFull(s, buf); err != nil {
		h.Trace("stream read: %v", err)
		s.Reset()
		return "stream-read-failed"
	}
	if string(buf) != string(echoPayload) {
		s.Reset()
		return "echo-mismatch"
	}
	if err := s.Close(); err != nil {
		h.Trace("stream close: %v", err)
	}
	return "echo-ok"
}

// runInBubble executes one case. It must run as the root function of a synctest bubble.
func runInBubble(cs Case, res *Result, dial DialFunc) {
	if dial == nil {
		dial = MirrorDial
	}
	h := NewH()
	defer func() {
		h.mu.Lock()
		res.Trace, res.Vios = h.TraceLog, h.Vios
		if h.fired {
			res.Fired = true
		}
		h.mu.Unlock()
	}()
	scn, ok := Scenarios[cs.Scenario]
	if !ok {
		res.Infra = "unknown scenario " + cs.Scenario
		return
	}
	if scn.QueueLen > 0 {
		old := upgrader.AcceptQueueLength
		upgrader.AcceptQueueLength = scn.QueueLen
		defer func() { upgrader.AcceptQueueLength = old }()
	}
	if scn.NilPeer {
		nilPeerDial = true
		defer func() { nilPeerDial = false }()
	}
	if scn.ForcePNet {
		ipnet.ForcePrivateNetwork = true
		defer func() { ipnet.ForcePrivateNetwork = false }()
	}
	out, err := NewSide("out", cs.Cfg, Seed, AddrOut)
	if err != nil {
		res.Infra = "fixture: " + err.Error()
		return
	}
	in, err := NewSide("in", cs.Cfg, Seed, AddrIn)
	if err != nil {
		out.RM.Close()
		res.Infra = "fixture: " + err.Error()
		return
	}
	sides := [2]*Side{out, in}
	sideOf := func(name string) int {
		if name == "in" {
			return 1
		}
		return 0
	}
	ml := memnet.Listen(AddrIn)
	ln := in.Upgrader.UpgradeListener(StubTransport{}, ml)
	env := &Env{Out: out, In: in, ML: ml, Trace: h.Trace}

	var before [2]memnet.Snap
	for i, s := range sides {
		if before[i], err = memnet.Snapshot(s.RM); err != nil {
			res.Infra = "snapshot: " + err.Error()
			return
		}
	}

	// ----- arm the fault -----
	f := cs.Fault
	switch f.Kind {
	case "gater":
		sides[sideOf(f.Side)].Gater.Reject(f.What, f.K)
	case "rcmgr":
		sides[sideOf(f.Side)].RM.Refuse(f.What, f.K)
	}
	var cancel0 context.CancelFunc
	if f.Kind == "cancelcall" {
		// cancel the outbound context at the moment the side makes its K-th call of a gater hook /
		// resource-manager entry point
		hook := func(what string, n int) {
			if what == f.What && n == f.K {
				h.Trace("fault: cancel outbound ctx at %s call %s#%d", f.Side, what, n)
				h.MarkFired()
				cancel0()
			}
		}
		sides[sideOf(f.Side)].RM.SetOnCall(hook)
		sides[sideOf(f.Side)].Gater.SetOnCall(hook)
	}
	dialTimeout := 20 * time.Second
	if cs.Variant.ShortDial {
		dialTimeout = 10 * time.Second
	}
	atts := make([]*Attempt, scn.NConns)
	var lnCloseOnce sync.Once
	var tmu sync.Mutex
	var acceptorStart, lnCloseAt time.Time // virtual times; zero = never
	markLnClose := func() {
		tmu.Lock()
		if lnCloseAt.IsZero() {
			lnCloseAt = time.Now()
		}
		tmu.Unlock()
	}
	closeListenerAsync := func(why string) {
		lnCloseOnce.Do(func() {
			markLnClose()
			h.Trace("listener.Close() issued (%s)", why)
			go func() {
				err := ln.Close()
				h.Trace("listener.Close() returned: %v", err)
			}()
			Yield()
		})
	}
	for i := range atts {
		a := &Attempt{Index: i, done: make(chan struct{})}
		if i == 0 && f.Kind == "rawdial" {
			a.RawFault = f.What
			res.Fired = true
		}
		a.COut, a.CIn = memnet.NewPair(memnet.PairConfig{NameA: fmt.Sprintf("out%d", i), NameB: fmt.Sprintf("in%d", i),
			AddrA: ma.StringCast(fmt.Sprintf("/ip4/10.1.1.1/tcp/%d", 4001+10*i)), AddrB: AddrIn})
		atts[i] = a
	}
	var ctx0 context.Context
	ctx0, cancel0 = context.WithTimeout(context.Background(), dialTimeout)
	atts[0].cancel = cancel0
	// connections as the harness learns about them (for the "connclose" fault)
	var liveMu sync.Mutex
	var liveConn [2]transport.CapableConn
	ends := [2]*memnet.Conn{atts[0].COut, atts[0].CIn}
	switch f.Kind {
	case "io":
		io, ok := memnet.FaultByName(f.What)
		if !ok {
			res.Infra = "unknown io fault " + f.What
			return
		}
		ends[sideOf(f.Side)].SetFault(f.K, io)
	case "cancel":
		ends[sideOf(f.Side)].SetOnOp(func(op memnet.Op) {
			if op.Index == f.K {
				h.Trace("fault: cancel outbound ctx at %s op %d", f.Side, f.K)
				h.MarkFired()
				cancel0()
			}
		})
	case "connclose":
		// Close() of the upgraded connection of that side, racing with whatever is in flight when the
		// side's raw end reaches op K (nothing happens if that side has no upgraded connection yet)
		ends[sideOf(f.Side)].SetOnOp(func(op memnet.Op) {
			if op.Index != f.K {
				return
			}
			liveMu.Lock()
			c := liveConn[sideOf(f.Side)]
			liveMu.Unlock()
			if c == nil {
				return
			}
			h.MarkFired()
			h.Trace("fault: %s connection Close() at its op %d", f.Side, f.K)
			go func() { h.Trace("fault: Close returned %v", c.Close()) }()
			Yield()
		})
	case "lnclose":
		ends[sideOf(f.Side)].SetOnOp(func(op memnet.Op) {
			if op.Index == f.K {
				h.MarkFired()
				closeListenerAsync(fmt.Sprintf("fault at %s op %d", f.Side, f.K))
			}
		})
	}

	// ----- inbound: acceptor -----
	accepted := make(chan transport.CapableConn, 16)
	var inConns []transport.CapableConn
	startAcceptor := func() {
		tmu.Lock()
		acceptorStart = time.Now()
		tmu.Unlock()
		go func() {
			for {
				c, err := ln.Accept()
				if err != nil {
					h.Trace("Accept: %v", err)
					return
				}
				h.Trace("Accept: connection from %s", c.RemotePeer())
				liveMu.Lock()
				if liveConn[1] == nil {
					liveConn[1] = c
				}
				liveMu.Unlock()
				go serveEcho(h, c)
				accepted <- c
			}
		}()
	}
	if scn.AcceptAfter == 0 && !cs.Variant.LateAccept {
		startAcceptor()
	}
	if scn.CloseListenerAt > 0 {
		go func() {
			time.Sleep(scn.CloseListenerAt)
			closeListenerAsync("scenario")
		}()
	}

	// ----- outbound: what tcp.go DialWithUpdates / dialWithScope do -----
	for i, a := range atts {
		ctx := ctx0
		if i > 0 {
			var cancel context.CancelFunc
			ctx, cancel = context.WithTimeout(context.Background(), dialTimeout)
			a.cancel = cancel
		}
		go func() {
			defer close(a.done)
			var stage string
			a.conn, stage, a.err = dial(ctx, env, a)
			if a.err != nil {
				a.conn = nil
				if stage == "" {
					stage = OutStage(a.err)
				}
				a.stage = stage
				return
			}
			a.stage = "ok"
			if i == 0 {
				liveMu.Lock()
				liveConn[0] = a.conn
				liveMu.Unlock()
			}
		}()
		if i+1 < len(atts) {
			synctest.Wait() // dial one after the other: deterministic arrival order
		}
	}
	for i, a := range atts {
		select {
		case <-a.done:
			h.Trace("outbound %d: stage=%s err=%v", i, a.stage, a.err)
		case <-time.After(90 * time.Second):
			a.stage = "hung"
			h.Trace("outbound %d: Upgrade did not return within 90s although its context expires after %v", i, dialTimeout)
		}
	}
	res.OutStage = atts[0].stage
	if atts[0].err != nil {
		res.OutErr = atts[0].err.Error()
	}

	// ----- inbound: collect -----
	collect := func(wait time.Duration, max int) {
		for len(inConns) < max {
			select {
			case c := <-accepted:
				inConns = append(inConns, c)
			case <-time.After(wait):
				return
			}
		}
	}
	switch {
	case scn.AcceptAfter < 0:
		time.Sleep(20 * time.Second)
	case scn.AcceptAfter > 0:
		time.Sleep(scn.AcceptAfter)
		startAcceptor()
		collect(5*time.Second, scn.NConns)
	case cs.Variant.LateAccept:
		time.Sleep(2 * time.Second)
		startAcceptor()
		collect(30*time.Second, scn.NConns)
	default:
		collect(30*time.Second, scn.NConns)
	}

	// ----- use the connection -----
	res.Post = "-"
	for i, a := range atts {
		if a.conn == nil {
			continue
		}
		p := doEcho(h, context.Background(), a.conn)
		if i == 0 {
			res.Post = p
		}
		h.Trace("outbound %d: %s", i, p)
	}
	synctest.Wait()

	// ----- tear down what exists -----
	closeOut := func() {
		for i, a := range atts {
			if a.conn != nil {
				c := a.conn
				h.Step(fmt.Sprintf("close outbound conn %d", i), func() { h.Trace("outbound %d Close: %v", i, c.Close()) })
			}
		}
	}
	closeIn := func() {
		for i, c := range inConns {
			h.Step(fmt.Sprintf("close inbound conn %d", i), func() { h.Trace("inbound %d Close: %v", i, c.Close()) })
		}
	}
	if cs.Variant.InClosesFirst {
		closeIn()
		synctest.Wait()
		closeOut()
	} else {
		closeOut()
		synctest.Wait()
		closeIn()
	}
	for _, a := range atts {
		if a.cancel != nil {
			a.cancel()
		}
	}
	markLnClose()
	h.Step("close listener", func() { h.Trace("listener.Close(): %v", ln.Close()) })
	// a connection that was accepted after the collection window is closed as well
	for {
		select {
		case c := <-accepted:
			inConns = append(inConns, c)
			h.Step("close late inbound conn", func() { c.Close() })
			continue
		default:
		}
		break
	}

	// let every deadline of the pipeline expire
	time.Sleep(Settle)
	synctest.Wait()

	// ----- facts about the run -----
	res.InStage = inStage(in, len(inConns))
	for i, e := range ends {
		res.Ops[i], res.Kinds[i] = e.Ops(), e.Kinds()
		res.RcCalls[i], res.GaCalls[i] = sides[i].RM.Counts(), sides[i].Gater.Counts()
		if len(e.Fired()) > 0 {
			res.Fired = true
		}
		if len(sides[i].RM.Refused()) > 0 || len(sides[i].Gater.Rejected()) > 0 {
			res.Fired = true
		}
	}
	if ThresholdCount != nil {
		if tc, ok := ThresholdCount(ln); ok && tc != 0 {
			h.Trace("listener threshold counter is %d after Close", tc)
		}
	}

	// ----- audit (i): usage of every scope is back to its previous value, on both sides -----
	for i, s := range sides {
		after, err := memnet.Snapshot(s.RM)
		if err != nil {
			res.Infra = "snapshot: " + err.Error()
			return
		}
		if d := before[i].Diff(after); len(d) > 0 {
			key := "scope-usage-not-restored/" + s.Name
			if scn.ForcePNet {
				key += "/force-pnet"
			}
			if i == 1 {
				// Attribute the leak to listener.Accept's "skip a connection that is already closed" path
				// only when nothing else can explain it: an inbound connection whose upgrade completed, whose
				// session is closed, that the harness never got from Accept although an Accept call was
				// pending before the connection's accept timeout and before the listener was closed (so
				// Accept, and neither the timeout path nor Close's drain, consumed it).
				tmu.Lock()
				ta, tc := acceptorStart, lnCloseAt
				tmu.Unlock()
				skipped := 0
				created := in.Muxer.CreatedAt()
				for j, mc := range in.Muxer.Conns() {
					if !mc.IsClosed() || ta.IsZero() {
						continue
					}
					if ta.Before(created[j].Add(AcceptTimeout)) && (tc.IsZero() || ta.Before(tc)) && !tc.Before(created[j]) {
						skipped++
					}
				}
				if n := len(in.Muxer.Conns()) - len(inConns); n > 0 && skipped >= n && after.System.NumConnsInbound == n {
					key += "/closed-conn-skipped-by-accept"
				}
			}
			h.Vio(key, "%s side: resource usage did not return to its previous value after the attempt was over and everything was closed: %s",
				s.Name, strings.Join(d, "; "))
		}
	}
	// ----- audit (ii): the raw connection was closed by whoever owned it -----
	for i, a := range atts {
		if !a.Dialed {
			continue
		}
		type end struct {
			c     *memnet.Conn
			side  string
			owned bool
		}
		for _, e := range []end{{a.COut, "out", true}, {a.CIn, "in", ml.WasAccepted(a.CIn)}} {
			if !e.owned || e.c.Closed() {
				continue
			}
			key := "raw-conn-not-closed/" + e.side
			if scn.ForcePNet {
				key = "raw-conn-not-closed/force-pnet"
			}
			if scn.NilPeer {
				key = "raw-conn-not-closed/nil-peer"
			}
			h.Vio(key, "attempt %d: the %s side never called Close on its raw connection %s (I/O calls seen: %d %q; outbound stage %s)",
				i, e.side, e.c.Name(), e.c.Ops(), e.c.Kinds(), a.stage)
		}
	}

	// ----- audit (iii): shut down what legitimately lives on; whatever is left is a leak -----
	for _, s := range sides {
		rm := s.RM
		h.Step("close resource manager "+s.Name, func() { rm.Close() })
	}
	if !h.AuditGoroutines("both connections, the listener and the resource managers were closed") {
		// unblock what can be unblocked so that as little as possible stays behind in the process
		for _, a := range atts {
			a.COut.Abort()
		}
	}
}

// leakSig: the innermost frame of a goroutine dump that belongs to libp2p code (stable part of a leak key).
func leakSig(stack string) string {
	first := ""
	for _, l := range strings.Split(stack, "\n")[1:] {
		if strings.HasPrefix(l, "\t") || strings.HasPrefix(l, "created by") {
			continue
		}
		if i := strings.LastIndexByte(l, '('); i > 0 {
			l = l[:i]
		}
		if first == "" {
			first = l
		}
		if strings.Contains(l, "libp2p/") && !strings.Contains(l, "x/verif/") {
			l = strings.TrimPrefix(l, "github.com/libp2p/")
			return l
		}
	}
	return first
}

// RunCase runs one case in a fresh bubble and turns "blocked goroutines remain" into a leak report if the
// in-bubble audit did not already see it.
func RunCase(t *testing.T, cs Case, dial DialFunc) *Result {
	res := &Result{Case: cs}
	func() {
		defer func() {
			if p := recover(); p != nil {
				msg := fmt.Sprint(p)
				switch {
				case strings.Contains(msg, "blocked goroutines remain"):
					for _, v := range res.Vios {
						if strings.HasPrefix(v.Key, "goroutine-left/") {
							return
						}
					}
					res.Vios = append(res.Vios, Vio{Key: "goroutine-left/at-bubble-exit", Desc: "synctest: " + msg})
				case strings.Contains(msg, "all goroutines in bubble are blocked"):
					res.Infra = "H deadlock: " + msg
				default:
					res.Infra = "panic: " + msg
				}
			}
		}()
		synctest.Test(t, func(t *testing.T) {
			defer func() {
				if p := recover(); p != nil {
					buf := make([]byte, 4096)
					buf = buf[:runtime.Stack(buf, false)]
					res.Infra = fmt.Sprintf("panic in the bubble's root goroutine: %v\n%s", p, buf)
				}
			}()
			runInBubble(cs, res, dial)
		})
	}()
	return res
}
