#!/usr/bin/env python3
"""Driver for the model-checking harnesses (stdlib only).

  check.py <ID> [--tier quick|thorough] [--replay <file>] [--keep]
  check.py --setup            pre-build every harness binary (warms GOCACHE)
  check.py --list

For each part of a property: build an overlay from /repo's CURRENT tree (engine packages, harness files,
stubs over the package's own tests, for E2 targets the instrumented sources), `go test -c` the target package,
run the binary in worker processes, merge the JSON records the harness wrote, write /verif/evidence/<ID>.json,
print `VIOLATION property=<ID> replay=<path>` for each violation not listed in known_findings.json (exit 1),
`KNOWN-FINDING: ...` for listed open findings (exit 0). Build or infrastructure failures exit 2 and never
print a VIOLATION line.
"""
import argparse, glob, hashlib, json, os, re, shutil, subprocess, sys, time

VERIF = os.path.dirname(os.path.abspath(__file__))
REPO = os.path.abspath(os.environ.get("VERIF_REPO", "/repo"))
BUILD = os.path.abspath(os.environ.get("VERIF_BUILD", os.path.join(VERIF, ".build")))
MOD = "github.com/libp2p/go-libp2p"
def engine_pkgs():
    return sorted(d for d in os.listdir(os.path.join(VERIF, "engine"))
                  if d != "instr" and os.path.isdir(os.path.join(VERIF, "engine", d)))

def log(*a):
    print("[check]", *a, file=sys.stderr, flush=True)

def go_env():
    env = dict(os.environ)
    env.update({"GOFLAGS": "-mod=mod", "GOPROXY": "off"})
    env.pop("GOSUMDB", None)  # GOSUMDB=off breaks the toolchain switch
    env.pop("GOTOOLCHAIN", None)
    return env

_GO = None
def go_bin():
    """The Go toolchain /repo's go.mod asks for (auto-switch resolves it offline from the module cache)."""
    global _GO
    if _GO:
        return _GO
    out = subprocess.run(["go", "env", "GOROOT"], cwd=REPO, env=go_env(), capture_output=True, text=True)
    root = out.stdout.strip()
    cand = os.path.join(root, "bin", "go")
    _GO = cand if out.returncode == 0 and os.path.exists(cand) else "go"
    return _GO

def go_run_env():
    env = go_env()
    if go_bin() != "go":
        env["GOTOOLCHAIN"] = "local"
        env["PATH"] = os.path.dirname(go_bin()) + os.pathsep + env.get("PATH", "")
    return env

def load_checks():
    out = {}
    for f in sorted(glob.glob(os.path.join(VERIF, "checks", "C*.json"))):
        out[os.path.basename(f)[:-5]] = json.load(open(f))
    return out

def build_instr():
    src = os.path.join(VERIF, "engine", "instr")
    out = os.path.join(BUILD, "instr")
    srcs = glob.glob(os.path.join(src, "*.go"))
    if os.path.exists(out) and all(os.path.getmtime(out) >= os.path.getmtime(s) for s in srcs):
        return out
    os.makedirs(BUILD, exist_ok=True)
    r = subprocess.run([go_bin(), "build", "-o", out, "."], cwd=src, env=go_run_env(), capture_output=True, text=True)
    if r.returncode != 0:
        log("instrumenter build failed:\n" + r.stderr)
        sys.exit(2)
    return out

def make_overlay(pid, part, bdir):
    """Returns path of overlay json. All generated files live under bdir."""
    rep = {}
    # engine packages -> virtual packages under /repo/x/verif/<name>
    for name in engine_pkgs():
        d = os.path.join(VERIF, "engine", name)
        for f in sorted(glob.glob(os.path.join(d, "*.go")) + glob.glob(os.path.join(d, "*.s"))):
            if f.endswith("_test.go"):
                continue
            rep[os.path.join(REPO, "x", "verif", name, os.path.basename(f))] = f
    pkgdir = os.path.join(REPO, part["pkg"])
    # stubs over the package's own tests (only the harness is compiled)
    stubdir = os.path.join(bdir, "stubs")
    shutil.rmtree(stubdir, ignore_errors=True)
    os.makedirs(stubdir)
    for ip in [part["pkg"]] + part.get("stub_tests_also", []):
        for f in sorted(glob.glob(os.path.join(REPO, ip, "*_test.go"))):
            pk = "package x\n"
            for line in open(f, errors="replace"):
                if line.startswith("package "):
                    pk = line.split("//")[0].rstrip() + "\n"
                    break
            stub = os.path.join(stubdir, ip.replace("/", "_") + "__" + os.path.basename(f))
            open(stub, "w").write(pk)
            rep[f] = stub
    # harness files
    hdir = os.path.join(VERIF, part["harness"])
    for f in sorted(glob.glob(os.path.join(hdir, "*.go"))):
        rep[os.path.join(pkgdir, os.path.basename(f))] = f
    # shims for other packages: harness/<x>/shims/<pkg path with __ for />/file.go
    for sd in sorted(glob.glob(os.path.join(hdir, "shims", "*"))):
        target = os.path.basename(sd).replace("__", "/")
        for f in sorted(glob.glob(os.path.join(sd, "*.go"))):
            rep[os.path.join(REPO, target, os.path.basename(f))] = f
    for extra in part.get("extra_harness", []):
        for f in sorted(glob.glob(os.path.join(VERIF, extra, "*.go"))):
            rep[os.path.join(pkgdir, os.path.basename(f))] = f
    ov1 = os.path.join(bdir, "overlay.phase1.json")
    json.dump({"Replace": rep}, open(ov1, "w"), indent=1)
    part["_phase1_overlay"] = ov1
    # instrumented copies of the package's sources (regenerated from the current tree)
    if part.get("instrument"):
        idir = os.path.join(bdir, "instr")
        shutil.rmtree(idir, ignore_errors=True)
        os.makedirs(idir)
        for ip in [part["pkg"]] + part.get("instrument_also", []):
            sub = os.path.join(idir, ip.replace("/", "_"))
            os.makedirs(sub)
            icmd = [build_instr(), "-pkg", "./" + ip, "-repo", REPO, "-out", sub, "-tags", "verif"]
            if part.get("instrument_tests") and ip == part["pkg"]:
                # the harness (internal test files, injected by the phase-1 overlay) is instrumented too, so that its
                # fixtures (mutexes, conds, channels, goroutines) are under the controlled scheduler as well
                icmd += ["-test", "-overlay", part["_phase1_overlay"]]
            r = subprocess.run(icmd, cwd=REPO, env=go_run_env(), capture_output=True, text=True)
            if r.returncode != 0:
                log("instrumenter failed for %s:\n%s" % (ip, r.stderr))
                sys.exit(2)
            d = json.loads(r.stdout)
            rep.update(d["Replace"])
            # fast goroutine-id accessor (assembly needs a real package directory)
            gdir = os.path.join(VERIF, "engine", "instr", "getg")
            pkgname = "main"
            for gf in sorted(d["Replace"].values()):
                for line in open(gf):
                    if line.startswith("package "):
                        pkgname = line.split()[1]
                        break
                break
            gen = os.path.join(sub, "zz_verif_getg.go")
            open(gen, "w").write(open(os.path.join(gdir, "zz_verif_getg.go.tmpl")).read().replace("PKGNAME", pkgname))
            rep[os.path.join(REPO, ip, "zz_verif_getg.go")] = gen
            rep[os.path.join(REPO, ip, "zz_verif_getg_amd64.s")] = os.path.join(gdir, "zz_verif_getg_amd64.s")
            part.setdefault("_instr_stats", {})[ip] = {"stats": d.get("stats"), "points": d.get("pcs")}
    ov = os.path.join(bdir, "overlay.json")
    json.dump({"Replace": rep}, open(ov, "w"), indent=1)
    return ov

def build_part(pid, part, race=False):
    bdir = os.path.join(BUILD, pid, part["name"])
    os.makedirs(bdir, exist_ok=True)
    ov = make_overlay(pid, part, bdir)
    binp = os.path.join(bdir, "harness.race.test" if race else "harness.test")
    cmd = [go_bin(), "test", "-c", "-tags", "verif", "-overlay", ov, "-vet=off", "-o", binp, "./" + part["pkg"]]
    if race:
        cmd.insert(2, "-race")
    t0 = time.time()
    r = subprocess.run(cmd, cwd=REPO, env=go_run_env(), capture_output=True, text=True)
    if r.returncode != 0:
        log("BUILD FAILED for %s/%s (not a verdict about the property):\n%s%s" % (pid, part["name"], r.stdout, r.stderr))
        sys.exit(2)
    log("built %s/%s in %.1fs" % (pid, part["name"], time.time() - t0))
    return binp, bdir

def mem_budget_mb(workers):
    """Heap budget per worker: half of the machine's memory divided by the number of workers (engines stop with a
    cap when they exceed it; the hard `ulimit -v` stays far above)."""
    try:
        total_kb = int(re.search(r"MemTotal:\s+(\d+)", open("/proc/meminfo").read()).group(1))
    except Exception:
        total_kb = 16 * 1024 * 1024
    return max(512, int(total_kb / 1024 * 0.5 / max(1, workers)))

def run_part(pid, part, tier, binp, bdir, replay=None, seed=1):
    shards = part.get("shards_" + tier, part.get("shards", 1))
    deadline = part.get("deadline_" + tier, 150 if tier == "quick" else 1500)
    if replay:
        shards = 1  # one process re-executes the recorded case and prints what it did
    outs, procs = [], []
    for i in range(shards):
        out = os.path.join(bdir, "out.%d.jsonl" % i)
        if os.path.exists(out):
            os.remove(out)
        env = go_run_env()
        env.update({"VERIF_OUT": out, "VERIF_TIER": tier, "VERIF_SHARD": "%d/%d" % (i, shards), "VERIF_SEED": str(seed),
                    "VERIF_DEADLINE_S": str(deadline), "VERIF_DIR": VERIF, "VERIF_REPO": REPO})
        if part.get("gomaxprocs"):
            env["GOMAXPROCS"] = str(part["gomaxprocs"])
        # the heap budget at which the engines stop with a cap stays well below the hard address-space limit (ulimit -v)
        env["VERIF_MEM_MB"] = str(min(mem_budget_mb(shards), int(part.get("mem_gb", 12) * 1024 * 0.4)))
        if replay:
            env["VERIF_REPLAY"] = replay
        if part.get("instrument"):
            env["VERIF_PCS"] = os.path.join(bdir, "instr", part["pkg"].replace("/", "_"), "pcs.json")
        logf = open(os.path.join(bdir, "log.%d.txt" % i), "w")
        cmd = [binp, "-test.run", "^(%s)$" % part["run"], "-test.timeout", "%ds" % (deadline * 2 + 120), "-test.v"]
        mem = part.get("mem_gb", 12)
        pre = "ulimit -v %d; exec " % (mem * 1024 * 1024)
        p = subprocess.Popen(["bash", "-c", pre + " ".join("'%s'" % c for c in cmd)], cwd=os.path.join(REPO, part["pkg"]),
                             env=env, stdout=logf, stderr=subprocess.STDOUT)
        procs.append((p, out, logf))
    records, failed = [], []
    hard = time.time() + deadline * 2 + 180
    for i, (p, out, logf) in enumerate(procs):
        try:
            rc = p.wait(timeout=max(1, hard - time.time()))
        except subprocess.TimeoutExpired:
            p.kill()
            rc = -9
        logf.close()
        if os.path.exists(out):
            for line in open(out):
                line = line.strip()
                if line:
                    records.append(json.loads(line))
        if rc != 0:
            failed.append((i, rc, os.path.join(bdir, "log.%d.txt" % i)))
        if replay:
            show = False
            for line in open(os.path.join(bdir, "log.%d.txt" % i), errors="replace"):
                if line.startswith("REPLAY"):
                    show = True
                if line.startswith(("--- ", "PASS", "FAIL", "ok ")) and show:
                    show = False
                if show:
                    sys.stdout.write(line)
    return records, failed

def race_pass(pid, part, tier, seconds):
    """Free-running -race pass over the same scenario bodies (validates the scheduler's data-race-freedom assumption).
    Returns (records, races) where races = {key: description} for races that involve code under test."""
    binp, bdir = build_part(pid, part, race=True)
    out = os.path.join(bdir, "out.race.jsonl")
    if os.path.exists(out):
        os.remove(out)
    env = go_run_env()
    env.update({"VERIF_OUT": out, "VERIF_TIER": tier, "VERIF_FREE": "1", "VERIF_DEADLINE_S": str(seconds), "GOMAXPROCS": "8",
                "GORACE": "halt_on_error=0", "VERIF_DIR": VERIF, "VERIF_REPO": REPO})
    logp = os.path.join(bdir, "log.race.txt")
    with open(logp, "w") as logf:
        cmd = [binp, "-test.run", "^(%s)$" % part["run"], "-test.timeout", "%ds" % (seconds * 3 + 120)]
        rc = -1
        try:
            rc = subprocess.run(cmd, cwd=os.path.join(REPO, part["pkg"]), env=env, stdout=logf, stderr=subprocess.STDOUT, timeout=seconds * 3 + 180).returncode
        except subprocess.TimeoutExpired:
            pass
    records = []
    if os.path.exists(out):
        for line in open(out):
            if line.strip():
                records.append(json.loads(line))
    races = {}
    txt = open(logp, errors="replace").read()
    if not records:
        log("race pass of %s/%s produced no record (exit %s); tail of %s:\n%s" % (pid, part["name"], rc, logp, txt[-1500:]))
        records.append({"property": pid, "part": "race-pass", "executions": 0, "exhaustive": False,
                        "caps_hit": ["free-running -race pass did not complete (exit %s): assumption not validated in this run" % rc]})
    for block in txt.split("WARNING: DATA RACE")[1:]:
        block = block.split("==================")[0]
        tops = []
        lines = block.splitlines()
        for i, l in enumerate(lines):
            if re.match(r"^(Write|Read|Previous write|Previous read) at ", l.strip()) or re.match(r"^(Write|Read|Previous write|Previous read) at ", l):
                # first frame outside the Go runtime / standard library: function line, then file line
                fn, fl = "", ""
                j = i + 1
                while j + 1 < len(lines) and lines[j].startswith("  ") and lines[j].strip():
                    f1, f2 = lines[j].strip(), lines[j + 1].strip().split(" ")[0]
                    if not fn or "/toolchain@" in fl or "/go/src/" in fl or fl.startswith("/usr/"):
                        fn, fl = f1, f2
                    if not ("/toolchain@" in fl or "/go/src/" in fl or fl.startswith("/usr/")):
                        break
                    j += 2
                tops.append((fn, fl))
        def under_test(fl):
            return ("/instr/" in fl or fl.startswith(REPO + "/")) and "zz_verif" not in fl and "/x/verif/" not in fl
        if len(tops) >= 2 and (under_test(tops[0][1]) or under_test(tops[1][1])):
            # skip pairs where the non-library side is the harness reading state after the run
            key = "data-race/" + " <-> ".join(sorted(re.sub(r"\(.*$", "", t[0]).split("/")[-1] for t in tops[:2]))
            races.setdefault(key, block.strip()[:1500])
    return records, races

def load_known():
    p = os.path.join(VERIF, "known_findings.json")
    if not os.path.exists(p):
        return []
    return json.load(open(p)).get("findings", [])

def match_known(pid, v, known):
    for k in known:
        if k.get("property") != pid or k.get("status") != "open":
            continue
        m = k.get("match", {})
        if "key" in m and m["key"] != v.get("key"):
            continue
        if "key_regex" in m and not re.search(m["key_regex"], v.get("key", "")):
            continue
        if "part" in m and m["part"] != v.get("_part"):
            continue
        if "replay_regex" in m and not re.search(m["replay_regex"], json.dumps(v.get("replay"), sort_keys=True)):
            continue
        if "desc_regex" in m and not re.search(m["desc_regex"], v.get("desc") or ""):
            continue
        return k
    return None

def merge(pid, spec, tier, records, wall, seed, infra_notes):
    cov = {"states": 0, "transitions": 0, "traces_validated_against_impl": 0, "evaluations": 0, "distinct_nontrivial": 0,
           "exhaustive": True, "samples": [], "parts": [], "rule": spec.get("rule", "")}
    viols = []
    outcomes = set()
    for r in records:
        cov["states"] += r.get("states", 0)
        cov["transitions"] += r.get("transitions", 0)
        cov["traces_validated_against_impl"] += r.get("executions", 0)
        cov["evaluations"] += r.get("executions", 0)
        cov["distinct_nontrivial"] += r.get("distinct_nontrivial", 0)
        if not r.get("exhaustive", False):
            cov["exhaustive"] = False
        for s in r.get("samples") or []:
            if len(cov["samples"]) < 12:
                cov["samples"].append({"part": r.get("part"), "case": s})
        for k in (r.get("outcomes") or {}):
            outcomes.add((r.get("part"), k))
        agg = None
        for p in cov["parts"]:
            if p["part"] == r.get("part"):
                agg = p
        if agg is None:
            agg = {"part": r.get("part"), "shards": 0, "states": 0, "transitions": 0, "executions": 0, "distinct_nontrivial": 0,
                   "exhaustive": True, "bounds": r.get("bounds"), "caps_hit": [], "notes": r.get("notes") or [], "wall_s_max": 0,
                   "n_violations": 0, "outcomes_first_shard": r.get("outcomes") or {}}
            cov["parts"].append(agg)
        agg["shards"] += 1
        for k in ("states", "transitions", "executions", "distinct_nontrivial", "n_violations"):
            agg[k] += r.get(k, 0) or 0
        agg["exhaustive"] = agg["exhaustive"] and bool(r.get("exhaustive"))
        agg["wall_s_max"] = max(agg["wall_s_max"], r.get("wall_s", 0))
        for cp in r.get("caps_hit") or []:
            if cp not in agg["caps_hit"] and len(agg["caps_hit"]) < 40:
                agg["caps_hit"].append(cp)
        for v in r.get("violations") or []:
            v["_part"] = r.get("part")
            viols.append(v)
    cov["distinct_outcome_classes"] = len(outcomes)
    if infra_notes:
        cov["exhaustive"] = False
        cov["infrastructure_notes"] = infra_notes
    ev = {"property_id": pid, "tier": tier, "seed": seed, "level": spec["level"], "coverage": cov,
          "assumptions": spec.get("assumptions", []), "wall_s": round(wall, 2), "violations": len(viols)}
    return ev, viols

def run_check(pid, tier, replay=None, keep=False):
    checks = load_checks()
    if pid not in checks:
        log("unknown property", pid)
        return 2
    spec = checks[pid]
    seed = int(os.environ.get("VERIF_SEED", "1") or 1)
    t0 = time.time()
    records, infra = [], []
    for part in spec["parts"]:
        if part.get("tier_only") and part["tier_only"] != tier:
            continue
        if os.environ.get("VERIF_ONLY_PART") and part["name"] not in os.environ["VERIF_ONLY_PART"].split(","):
            continue  # mutation tooling only: a registered check always runs every part
        binp, bdir = build_part(pid, part)
        recs, failed = run_part(pid, part, tier, binp, bdir, replay, seed)
        records += recs
        for (i, rc, lf) in failed:
            tail = "".join(open(lf, errors="replace").readlines()[-40:])
            infra.append("part %s worker %d exited %s; log tail:\n%s" % (part["name"], i, rc, tail))
        if part.get("_instr_stats"):
            for r in recs:
                r.setdefault("notes", []).append("instrumented: %s" % json.dumps(part["_instr_stats"]))
        secs = part.get("race_pass_" + tier, 0)
        if secs and not replay:
            rrecs, races = race_pass(pid, part, tier, secs)
            if races:
                # a race must show up in two independent passes before it is believed
                _, races2 = race_pass(pid, part, tier, secs)
                races = {k: v for k, v in races.items() if k in races2}
            for r in rrecs:
                r["violations"] = [{"key": k, "desc": "the race detector reports a data race in the code under test while the scenario bodies run freely (two independent passes):\n" + v,
                                    "replay": {"race_pass": True, "part": part["name"]}} for k, v in races.items()]
                r["n_violations"] = len(races)
                r.setdefault("notes", []).append("free-running -race pass: %d executions, %d distinct races in code under test" % (r.get("executions", 0), len(races)))
                r["exhaustive"] = True
            records += rrecs
    wall = time.time() - t0
    ev, viols = merge(pid, spec, tier, records, wall, seed, [x[:2000] for x in infra])
    known = load_known()
    rc = 0
    rpdir = os.path.abspath(os.environ.get("VERIF_REPLAY_DIR", os.path.join(VERIF, "replays")))
    os.makedirs(rpdir, exist_ok=True)
    new_v, known_hits = [], {}
    for v in viols:
        k = match_known(pid, v, known)
        if k is not None:
            known_hits.setdefault(k["what"], 0)
            known_hits[k["what"]] += 1
            continue
        new_v.append(v)
    for what, n in known_hits.items():
        print("KNOWN-FINDING: property=%s %s (%d matching executions)" % (pid, what, n))
    seen_keys = set()
    per_key = {}
    for v in new_v:
        per_key[v.get("key")] = per_key.get(v.get("key"), 0) + 1
        if per_key[v.get("key")] > 5:
            continue
        h = hashlib.sha1(json.dumps([v.get("key"), v.get("replay")], sort_keys=True).encode()).hexdigest()[:12]
        path = os.path.join(rpdir, "%s-%s.json" % (pid, h))
        json.dump({"property": pid, "part": v.get("_part"), "key": v.get("key"), "desc": v.get("desc"), "replay": v.get("replay"), "tier": tier},
                  open(path, "w"), indent=1)
        if (v.get("key"), v.get("_part")) in seen_keys:
            continue
        seen_keys.add((v.get("key"), v.get("_part")))
        print("VIOLATION property=%s replay=%s" % (pid, path))
        print("  [%s] %s: %s" % (v.get("_part"), v.get("key"), (v.get("desc") or "")[:600]))
        rc = 1
    ev["violations"] = len(new_v)
    ev["coverage"]["known_findings_reproduced"] = known_hits
    if not replay:
        evdir = os.path.abspath(os.environ.get("VERIF_EVIDENCE_DIR", os.path.join(VERIF, "evidence")))
        os.makedirs(evdir, exist_ok=True)
        json.dump(ev, open(os.path.join(evdir, pid + ".json"), "w"), indent=1)
    c = ev["coverage"]
    print("%s %s: states=%d transitions=%d executions=%d distinct=%d exhaustive=%s violations=%d wall=%.1fs" % (
        pid, tier, c["states"], c["transitions"], c["evaluations"], c["distinct_nontrivial"], c["exhaustive"], len(new_v), wall))
    if infra:
        for x in infra:
            log("INFRASTRUCTURE PROBLEM (no verdict from this worker): " + x[:3000])
        if rc == 0 and not records:
            return 2
        if rc == 0:
            return 2
    return rc

def main():
    ap = argparse.ArgumentParser()
    ap.add_argument("id", nargs="?")
    ap.add_argument("--tier", default=os.environ.get("VERIF_TIER", "quick"))
    ap.add_argument("--replay")
    ap.add_argument("--setup", action="store_true")
    ap.add_argument("--list", action="store_true")
    ap.add_argument("--keep", action="store_true")
    a = ap.parse_args()
    if a.list:
        for k, v in load_checks().items():
            print(k, [p["name"] for p in v["parts"]])
        return 0
    if a.setup:
        build_instr()
        accepted = set(open(os.path.join(VERIF, "accepted.txt")).read().split()) if os.path.exists(os.path.join(VERIF, "accepted.txt")) else None
        for pid, spec in load_checks().items():
            if accepted is not None and pid not in accepted:
                continue
            for part in spec["parts"]:
                try:
                    build_part(pid, part)
                    if part.get("race_pass_quick"):
                        build_part(pid, part, race=True)
                except SystemExit:
                    log("setup: pre-build of %s/%s failed (the check itself will report it)" % (pid, part["name"]))
        return 0
    if not a.id:
        ap.error("property id required")
    tier = a.tier if a.tier in ("quick", "thorough") else "quick"
    return run_check(a.id, tier, a.replay, a.keep)

if __name__ == "__main__":
    sys.exit(main())
