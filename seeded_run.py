#!/usr/bin/env python3
"""Confirm an independently seeded change and run a check against it.
usage: seeded_run.py <seed dir (/tmp/seed/C06a)> <n> <property id> <pkg dir of demo> <go test -run regex> <name>
Steps (all in the seed's own worktree <seed>/wt, never in /repo): demo passes without the change; apply the change;
go build; demo fails with it; the property's quick check (VERIF_REPO=<wt>) must report a VIOLATION; undo the change.
Writes /verif/seeded/<name>/{patch.diff,demo_test.go,meta.json}."""
import json, os, shutil, subprocess, sys
seed, n, pid, pkg, runre, name = sys.argv[1:7]
wt = os.path.join(seed, "wt"); out = os.path.join(seed, "out")
env = dict(os.environ, GOFLAGS="-mod=mod", GOPROXY="off")
def sh(cmd, **kw):
    return subprocess.run(cmd, shell=True, cwd=wt, env=env, capture_output=True, text=True, **kw)
sh("git checkout -- . && git clean -fdq")
demo_src = os.path.join(out, "demo%s_test.go" % n); demo_dst = os.path.join(wt, pkg, "zz_seed_demo%s_test.go" % n)
shutil.copy(demo_src, demo_dst)
meta = {"property": pid, "name": name, "source": "independent sub-agent given only the property text and a scratch worktree"}
r = sh("go test -vet=off -count=1 -run '%s' ./%s/" % (runre, pkg), timeout=1200)
meta["demo_without_change"] = "pass" if r.returncode == 0 else "FAIL: " + r.stdout[-400:]
r = sh("git apply %s" % os.path.join(out, "change%s.diff" % n)); assert r.returncode == 0, r.stderr
r = sh("go build ./... ", timeout=1800); meta["builds"] = r.returncode == 0
r = sh("go test -vet=off -count=1 -run '%s' ./%s/" % (runre, pkg), timeout=1200)
meta["demo_with_change"] = "fail" if r.returncode != 0 else "PASSES (not a valid seed)"
os.remove(demo_dst)
# the package's own tests with the change (names of failing tests; compare with the baseline list)
import re
r = sh("go test -vet=off -count=1 ./%s/ 2>&1 | grep -E '^(--- FAIL|FAIL|ok)' | head -20" % pkg, timeout=2400)
meta["package_tests_with_change"] = r.stdout.strip().splitlines()
base = os.path.join("/tmp/seed", "baseline_" + pkg.replace("/", "_") + ".txt")
if not os.path.exists(base):
    sh("git stash -q"); rb = sh("go test -vet=off -count=1 ./%s/ 2>&1 | grep -E '^(--- FAIL|FAIL|ok)' | head -20" % pkg, timeout=2400); sh("git stash pop -q")
    open(base, "w").write(rb.stdout)
meta["package_tests_baseline"] = open(base).read().strip().splitlines()
e2 = dict(os.environ, VERIF_REPO=wt, VERIF_BUILD=os.path.join(seed, "build"), VERIF_EVIDENCE_DIR=os.path.join(seed, "ev"), VERIF_REPLAY_DIR=os.path.join(seed, "rp"))
r = subprocess.run([sys.executable, "/verif/check.py", pid, "--tier", "quick"], env=e2, capture_output=True, text=True)
meta["check_cmd"] = "VERIF_REPO=<worktree with patch> python3 /verif/check.py %s --tier quick" % pid
meta["check_rc"] = r.returncode
meta["check_lines"] = [l for l in r.stdout.splitlines() if l.startswith("VIOLATION") or l.startswith("  [") or l.startswith(pid)][:8]
sh("git checkout -- . && git clean -fdq")
d = os.path.join("/verif/seeded", name); os.makedirs(d, exist_ok=True)
shutil.copy(os.path.join(out, "change%s.diff" % n), os.path.join(d, "patch.diff"))
shutil.copy(demo_src, os.path.join(d, "demo_test.go.txt"))
meta["demo"] = "place demo_test.go.txt as %s/<any>_test.go; go test -vet=off -count=1 -run '%s' ./%s/" % (pkg, runre, pkg)
readme = os.path.join(out, "README.md")
if os.path.exists(readme): shutil.copy(readme, os.path.join(d, "README.seed-agent.md"))
json.dump(meta, open(os.path.join(d, "meta.json"), "w"), indent=1)
print(json.dumps(meta, indent=1))
